// C02 harness: drives the real types.VoteSet / ValidatorSet.VerifyCommit with generated
// vote/commit histories, prints the projected observables for the model driver, and
// evaluates the property directly (independent big.Int tally) on the implementation.
package main

import (
	"crypto/ecdsa"
	"fmt"
	"math/big"
	"strings"
	"time"

	cstypes "github.com/kardiachain/go-kardia/consensus/types"
	"github.com/kardiachain/go-kardia/lib/common"
	"github.com/kardiachain/go-kardia/lib/crypto"
	"github.com/kardiachain/go-kardia/lib/p2p"
	kproto "github.com/kardiachain/go-kardia/proto/kardiachain/types"
	"github.com/kardiachain/go-kardia/types"

	"verif/harness/internal/gen"
	"verif/harness/internal/out"
)

type sigInfo struct {
	id                       int
	empty                    bool
	signer                   int // address id, 0 = nobody
	chain, ty, height, round int64
	bid                      types.BlockID
	tm                       int64
}

var (
	keys    []*ecdsa.PrivateKey
	addrID  = map[common.Address]int{}
	sigs    = map[string]*sigInfo{}
	nextSig = 1
	chains  = []string{"", "chain-A", "chain-B"}
)

const nKeys = 80 // deterministic keys; a validator set takes the first n of a permutation

func chainID(s string) int64 {
	for i, c := range chains {
		if c == s {
			return int64(i)
		}
	}
	return 99
}

func tmID(t time.Time) int64 {
	if t.IsZero() {
		return 0
	}
	return t.UnixNano()
}

func hnum(h common.Hash) string { return new(big.Int).SetBytes(h[:]).String() }

func bidStr(b types.BlockID) string {
	return fmt.Sprintf("%s %d %s", hnum(b.Hash), b.PartsHeader.Total, hnum(b.PartsHeader.Hash))
}
func bidObs(b types.BlockID) string {
	return fmt.Sprintf("%s:%d:%s", hnum(b.Hash), b.PartsHeader.Total, hnum(b.PartsHeader.Hash))
}

func sigTokens(sig []byte) string {
	si, ok := sigs[string(sig)]
	if !ok {
		// bytes the harness did not create: register as garbage
		si = &sigInfo{id: nextSig, empty: len(sig) == 0}
		nextSig++
		sigs[string(sig)] = si
	}
	e := 0
	if si.empty {
		e = 1
	}
	return fmt.Sprintf("%d %d %d %d %d %d %d %s %d", si.id, e, si.signer, si.chain, si.ty, si.height, si.round, bidStr(si.bid), si.tm)
}

func sigID(sig []byte) int {
	if si, ok := sigs[string(sig)]; ok {
		return si.id
	}
	return -1
}

// signVote signs the content (chain, vote fields) with key k and registers the ideal signature.
func signVote(k int, chain string, v *types.Vote) []byte {
	pv := v.ToProto()
	sb := types.VoteSignBytes(chain, pv)
	sig, err := crypto.Sign(crypto.Keccak256(sb), keys[k])
	if err != nil {
		panic(err)
	}
	if _, ok := sigs[string(sig)]; !ok {
		sigs[string(sig)] = &sigInfo{id: nextSig, signer: addrID[crypto.PubkeyToAddress(keys[k].PublicKey)],
			chain: chainID(chain), ty: int64(v.Type), height: int64(v.Height), round: int64(v.Round), bid: v.BlockID, tm: tmID(v.Timestamp)}
		nextSig++
	}
	return sig
}

func garbageSig(r *gen.Rand, n int) []byte {
	b := r.Bytes(n)
	if n == 65 {
		b[64] = byte(r.Intn(2))
	}
	if _, ok := sigs[string(b)]; !ok {
		sigs[string(b)] = &sigInfo{id: nextSig, empty: n == 0}
		nextSig++
	}
	return b
}

func catch(f func()) (panicked bool) {
	defer func() {
		if r := recover(); r != nil {
			panicked = true
		}
	}()
	f()
	return
}

func errClass(err error) string {
	if err == nil {
		return "none"
	}
	s := err.Error()
	switch {
	case err == types.ErrVoteNil:
		return "nil"
	case err == cstypes.ErrNilVoteType:
		return "niltype"
	case err == cstypes.ErrGotVoteFromUnwantedRound:
		return "unwanted"
	case strings.Contains(s, "Conflicting votes") || strings.Contains(s, "conflicting vote"):
		return "conflict"
	case strings.Contains(s, types.ErrVoteUnexpectedStep.Error()):
		return "step"
	case strings.Contains(s, types.ErrVoteInvalidValidatorIndex.Error()):
		return "index"
	case strings.Contains(s, types.ErrVoteInvalidValidatorAddress.Error()):
		return "addr"
	case strings.Contains(s, types.ErrVoteNonDeterministicSignature.Error()):
		return "nondet"
	case strings.Contains(s, types.ErrVoteInvalidSignature.Error()):
		return "sig"
	}
	return "other:" + s
}

func commitErrClass(err error) string {
	if err == nil {
		return "ok"
	}
	s := err.Error()
	if err == types.ErrNilCommit {
		return "nilcommit"
	}
	switch err.(type) {
	case types.ErrInvalidCommitSignatures:
		return "size"
	case types.ErrInvalidCommitHeight:
		return "height"
	case types.ErrNotEnoughVotingPowerSigned:
		return "power"
	}
	switch {
	case strings.Contains(s, "wrong block id"):
		return "blockid"
	case strings.Contains(s, "wrong signature"):
		return "sig"
	case strings.Contains(s, "wrong validator address"):
		return "addr"
	case strings.Contains(s, "Commit cannot be for nil block"), strings.Contains(s, "no signatures in commit"), strings.Contains(s, "wrong CommitSig"):
		return "basic"
	}
	return "other:" + s
}

type tvote struct { // what the oracle knows about an offered vote
	idx   int
	bid   types.BlockID
	valid bool
}

func main() {
	out.WriteFacts(func() string {
		return fmt.Sprintf("From Coq Require Import ZArith.\nDefinition max_total_voting_power : Z := %d%%Z.\nDefinition max_votes_count : Z := %d%%Z.\n",
			types.MaxTotalVotingPower, types.MaxVotesCount)
	})
	o := out.Open()
	o.Rule = "a case is one VoteSet history (validator set, votes incl. nil, peer claims, MakeCommit/VerifyCommit/CommitToVoteSet calls, directly assembled commits at the 2/3 boundary) or one HeightVoteSet history (SetRound, AddVote by peers incl. catch-up rounds, SetPeerMaj23, POLInfo after every call); non-trivial = the history reaches a +2/3 majority, contains a conflicting/duplicate/invalid vote, a refused catch-up round or a SetRound panic; distinct by (validator powers, op-kind string, outcome string)"
	root := gen.New(*out.Seed)
	// deterministic keys
	for i := 0; i < nKeys; i++ {
		k, err := crypto.ToECDSA(crypto.Keccak256([]byte(fmt.Sprintf("verif-c02-key-%d", i))))
		if err != nil {
			panic(err)
		}
		keys = append(keys, k)
		addrID[crypto.PubkeyToAddress(k.PublicKey)] = i + 1
	}
	for c := 0; c < *out.N; c++ {
		if !out.Want(c) {
			continue
		}
		rr := root.Fork(uint64(c))
		if rr.Pick(7, 2) == 1 {
			o.Count("case.heightvoteset")
			runHVSCase(o, rr, c)
		} else {
			o.Count("case.voteset")
			runCase(o, rr, c)
		}
	}
	o.Close()
}

func mkBid(h, total, ph int) types.BlockID {
	return types.BlockID{Hash: common.BigToHash(big.NewInt(int64(h))), PartsHeader: types.PartSetHeader{Total: uint32(total), Hash: common.BigToHash(big.NewInt(int64(ph)))}}
}

// genValSet: validator sets of 1..7 members (rarely 63..66: the bit arrays cross a 64-bit word),
// powers from {1, equal, small with the total forced to each residue mod 3, skewed, near the cap,
// exactly the cap}.
func genValSet(o *out.Out, r *gen.Rand) (*types.ValidatorSet, []int64, func(int) int, *big.Int) {
	n := 1 + r.Intn(7)
	if r.Chance(1, 60) {
		n = 63 + r.Intn(4)
		o.Count("nvals.big")
	}
	// power distribution
	powers := make([]int64, n)
	kind := r.Pick(3, 3, 3, 2, 2, 1, 2)
	capTotal := types.MaxTotalVotingPower
	switch kind {
	case 0: // all 1
		for i := range powers {
			powers[i] = 1
		}
	case 1: // equal
		p := int64(1 + r.Intn(100))
		for i := range powers {
			powers[i] = p
		}
	case 2: // small random, often total divisible by 3
		var t int64
		for i := range powers {
			powers[i] = int64(1 + r.Intn(9))
			t += powers[i]
		}
		if r.Bool() {
			for t%3 != 0 {
				powers[0]++
				t++
			}
		}
	case 3: // skewed
		for i := range powers {
			powers[i] = int64(1 + r.Intn(5))
		}
		powers[r.Intn(n)] = int64(50 + r.Intn(1000))
	case 4: // near the cap
		each := capTotal / int64(n)
		for i := range powers {
			powers[i] = each - int64(r.Intn(3))
		}
	case 5: // exactly the cap (MaxTotalVotingPower = MaxInt64/8)
		each := capTotal / int64(n)
		var t int64
		for i := range powers {
			powers[i] = each
			t += each
		}
		powers[r.Intn(n)] += capTotal - t
	case 6: // small powers, total forced to a chosen residue mod 3 (2T/3 exact, or rounded down)
		var t int64
		for i := range powers {
			powers[i] = int64(1 + r.Intn(4))
			t += powers[i]
		}
		want := int64(r.Intn(3))
		for t%3 != want {
			powers[n-1]++
			t++
		}
		o.Count(fmt.Sprintf("powers.mod3.%d", want))
	}
	o.Count(fmt.Sprintf("powers.kind%d", kind))
	o.Count(fmt.Sprintf("nvals.%d", n))
	perm := r.Perm(nKeys)
	vals := make([]*types.Validator, n)
	for i := 0; i < n; i++ {
		vals[i] = types.NewValidator(crypto.PubkeyToAddress(keys[perm[i]].PublicKey), powers[i])
	}
	vset := types.NewValidatorSet(vals)
	keyOf := func(idx int) int { // key index of validator idx
		return addrID[vset.Validators[idx].Address] - 1
	}
	total := new(big.Int)
	for _, v := range vset.Validators {
		total.Add(total, big.NewInt(v.VotingPower))
	}
	return vset, powers, keyOf, total
}

// block-id pool: nil, A, B, A' (A with another total), A'' (A with another parts hash), malformed (hash only),
// malformed (parts header only: neither zero nor complete)
var pool = []types.BlockID{{}, mkBid(7, 1, 9), mkBid(8, 2, 10), mkBid(7, 2, 9), mkBid(7, 1, 11), mkBid(5, 0, 0), mkBid(0, 1, 9)}

// caseHeader writes the case header, the validators and the tracked block ids for the model driver.
func caseHeader(o *out.Out, c int, chain string, height uint64, round uint32, ty int, vset *types.ValidatorSet) {
	o.Case(c, fmt.Sprintf("CASE %d %d %d %d %d %d", c, chainID(chain), height, round, ty, vset.Size()))
	for _, v := range vset.Validators {
		o.InOnly(fmt.Sprintf("VAL %d %d", addrID[v.Address], v.VotingPower))
	}
	for _, b := range pool {
		o.InOnly("B " + bidStr(b))
	}
}

// vsObs: every public observable of a vote set: majority, any/all flags, bit array, the canonical vote
// of every index (GetByIndex, as signature identity), the per-block bit arrays of the pool, IsCommit.
func vsObs(vs *types.VoteSet, n int) string {
	maj, ok := vs.TwoThirdsMajority()
	ms := "-"
	if ok {
		ms = bidObs(maj)
	}
	ba := vs.BitArray()
	bits := ""
	ids := make([]string, n)
	for i := 0; i < n; i++ {
		if ba.GetIndex(i) {
			bits += "1"
		} else {
			bits += "0"
		}
		ids[i] = "0"
		if v := vs.GetByIndex(uint32(i)); v != nil {
			ids[i] = fmt.Sprint(sigIDorZero(v.Signature))
		}
	}
	bb := make([]string, len(pool))
	for k, pb := range pool {
		bb[k] = "nil"
		if a := vs.BitArrayByBlockID(pb); a != nil {
			bb[k] = ""
			for i := 0; i < n; i++ {
				if a.GetIndex(i) {
					bb[k] += "1"
				} else {
					bb[k] += "0"
				}
			}
		}
	}
	return fmt.Sprintf("%s %s %s %s ids=%s bb=%s ic=%s", ms, b01(vs.HasTwoThirdsAny()), b01(vs.HasAll()), bits,
		strings.Join(ids, ","), strings.Join(bb, "/"), b01(vs.IsCommit()))
}

// accessorOracle: accessors that must agree with each other on every state.
func accessorOracle(o *out.Out, step int, vs *types.VoteSet, vset *types.ValidatorSet, ty kproto.SignedMsgType) {
	_, ok := vs.TwoThirdsMajority()
	if vs.HasTwoThirdsMajority() != ok {
		o.Fail(step, "accessor-disagree", "HasTwoThirdsMajority differs from TwoThirdsMajority")
	}
	if vs.IsCommit() != (ok && ty == kproto.PrecommitType) {
		o.Fail(step, "accessor-disagree", "IsCommit differs from (precommit set with a majority)")
	}
	ba := vs.BitArray()
	for i, val := range vset.Validators {
		v := vs.GetByIndex(uint32(i))
		if (v != nil) != ba.GetIndex(i) {
			o.Fail(step, "accessor-disagree", fmt.Sprintf("BitArray bit %d differs from GetByIndex != nil", i))
		}
		if vs.GetByAddress(val.Address) != v {
			o.Fail(step, "accessor-disagree", fmt.Sprintf("GetByAddress differs from GetByIndex at %d", i))
		}
		if v != nil && (int(v.ValidatorIndex) != i || !v.ValidatorAddress.Equal(val.Address)) {
			o.Fail(step, "accessor-disagree", fmt.Sprintf("the vote stored at %d carries index %d", i, v.ValidatorIndex))
		}
	}
}

// vsTrack: what the direct oracles know about one vote set: the valid votes offered so far (by
// construction: right step, index, address and a signature by that validator's key over exactly the vote),
// each validator's first valid vote, and the majority reported so far.
type vsTrack struct {
	vset       *types.ValidatorSet
	total      *big.Int
	ty         kproto.SignedMsgType
	offered    []tvote
	firstValid map[int]*types.BlockID
	hadMaj     bool
	lastMaj    types.BlockID
}

func newTrack(vset *types.ValidatorSet, total *big.Int, ty kproto.SignedMsgType) *vsTrack {
	return &vsTrack{vset: vset, total: total, ty: ty, firstValid: map[int]*types.BlockID{}}
}

func (t *vsTrack) offer(idx int, b types.BlockID) {
	t.offered = append(t.offered, tvote{idx: idx, bid: b, valid: true})
	if _, seen := t.firstValid[idx]; !seen {
		bb := b
		t.firstValid[idx] = &bb
	}
}

func (t *vsTrack) powerOf(set map[int]bool) *big.Int {
	s := new(big.Int)
	for i := range set {
		s.Add(s, big.NewInt(t.vset.Validators[i].VotingPower))
	}
	return s
}

func (t *vsTrack) gt23(p *big.Int) bool {
	return new(big.Int).Mul(p, big.NewInt(3)).Cmp(new(big.Int).Mul(t.total, big.NewInt(2))) > 0
}

// validFor: the validators that offered a valid vote for exactly b (every one counted once)
func (t *vsTrack) validFor(b types.BlockID) map[int]bool {
	set := map[int]bool{}
	for _, tv := range t.offered {
		if tv.valid && tv.bid.Equal(b) {
			set[tv.idx] = true
		}
	}
	return set
}

// check: the property evaluated directly on the implementation's vote set (independent big.Int tally).
func (t *vsTrack) check(o *out.Out, step int, vs *types.VoteSet) {
	total := t.total
	maj, ok := vs.TwoThirdsMajority()
	if ok {
		set := t.validFor(maj)
		if !t.gt23(t.powerOf(set)) {
			o.Fail(step, "maj23-unsound", fmt.Sprintf("maj23=%s but valid distinct signers of that exact id hold %s of %s", bidObs(maj), t.powerOf(set), total))
		}
	}
	// the first majority is final: it is never withdrawn and never replaced
	if t.hadMaj && (!ok || !maj.Equal(t.lastMaj)) {
		o.Fail(step, "maj23-changed", fmt.Sprintf("the reported majority changed from %s", bidObs(t.lastMaj)))
	}
	if ok {
		t.hadMaj, t.lastMaj = true, maj
	}
	all := map[int]bool{}
	for _, tv := range t.offered {
		if tv.valid {
			all[tv.idx] = true
		}
	}
	if vs.HasTwoThirdsAny() && !t.gt23(t.powerOf(all)) {
		o.Fail(step, "any23-unsound", fmt.Sprintf("HasTwoThirdsAny but valid signers hold %s of %s", t.powerOf(all), total))
	}
	if !vs.HasTwoThirdsAny() && t.gt23(t.powerOf(all)) {
		o.Fail(step, "any23-incomplete", fmt.Sprintf("valid signers hold %s of %s but HasTwoThirdsAny is false", t.powerOf(all), total))
	}
	if vs.HasAll() != (t.powerOf(all).Cmp(total) == 0) {
		o.Fail(step, "hasall-unsound", fmt.Sprintf("HasAll=%v but the validators that offered a valid vote hold %s of %s", vs.HasAll(), t.powerOf(all), total))
	}
	// completeness: first valid votes
	byb := map[string]map[int]bool{}
	for i, b := range t.firstValid {
		k := bidObs(*b)
		if byb[k] == nil {
			byb[k] = map[int]bool{}
		}
		byb[k][i] = true
	}
	for k, set := range byb {
		if t.gt23(t.powerOf(set)) && !ok {
			o.Fail(step, "maj23-incomplete", fmt.Sprintf("validators with +2/3 power gave first valid vote for %s but no majority reported", k))
		}
	}
	accessorOracle(o, step, vs, t.vset, t.ty)
}

func runCase(o *out.Out, r *gen.Rand, c int) {
	vset, powers, keyOf, total := genValSet(o, r)
	n := vset.Size()
	chain := chains[1]
	height := uint64(1 + r.Intn(5))
	round := uint32(1 + r.Intn(3))
	ty := kproto.PrevoteType
	if r.Chance(2, 3) {
		ty = kproto.PrecommitType
	}
	vs := types.NewVoteSet(chain, height, round, ty, vset)
	caseHeader(o, c, chain, height, round, int(ty), vset)

	tr := newTrack(vset, total, ty)
	opKinds := ""
	outcome := ""
	step := 0
	checkOracle := func() { tr.check(o, step, vs) }

	nops := 3 + r.Intn(4*n+6)
	if n > 60 {
		nops = n + r.Intn(n)
	}
	// bias: a "main" block most validators vote for
	mainB := 1 + r.Intn(2)
	for k := 0; k < nops; k++ {
		step = k
		pk := r.Pick(32, 4, 2, 2, 3, 1, 1)
		if _, has := vs.TwoThirdsMajority(); has && ty == kproto.PrecommitType && r.Chance(1, 3) {
			pk = 2 + r.Pick(3, 1)*4
		}
		switch pk {
		case 0: // vote
			v, valid, idx, mut := genVote(r, vset, keyOf, chain, height, round, ty, mainB)
			o.Count(fmt.Sprintf("vote.mut%d", mut))
			if r.Chance(1, 6) {
				statelessVoteOps(o, r, vset, chain, v, step)
			}
			in := "V " + voteTokens(v)
			var added bool
			var err error
			before := vsObs(vs, n)
			pan := catch(func() { added, err = vs.AddVote(v) })
			if valid {
				tr.offer(idx, v.BlockID)
			}
			var obs string
			if pan {
				obs = "v PANIC"
				o.Fail(step, "addvote-panic", "AddVote panicked")
			} else {
				ec := errClass(err)
				obs = fmt.Sprintf("v %s %s %s", b01(added), ec, vsObs(vs, n))
				outcome += ec[:1]
				if _, ok := vs.TwoThirdsMajority(); ok {
					outcome += "M"
				}
				voteOracle(o, step, valid, added, ec, before, vsObs(vs, n))
			}
			opKinds += "v"
			o.Op(in, obs)
			checkOracle()
		case 5: // AddVote(nil): ErrVoteNil, nothing changes
			var added bool
			var err error
			before := vsObs(vs, n)
			pan := catch(func() { added, err = vs.AddVote(nil) })
			obs := "v PANIC"
			if pan {
				o.Fail(step, "addvote-panic", "AddVote(nil) panicked")
			} else {
				obs = fmt.Sprintf("v %s %s %s", b01(added), errClass(err), vsObs(vs, n))
				voteOracle(o, step, false, added, errClass(err), before, vsObs(vs, n))
			}
			opKinds += "n"
			o.Count("op.nilvote")
			o.Op("VN", obs)
			checkOracle()
		case 1: // peer maj23 claim
			peer := 1 + r.Intn(3)
			b := pool[r.Intn(7)]
			var err error
			pan := catch(func() { err = vs.SetPeerMaj23(p2p.ID(fmt.Sprintf("peer%d", peer)), b) })
			obs := "p PANIC"
			if !pan {
				obs = fmt.Sprintf("p %s %s", b01(err != nil), vsObs(vs, n))
			}
			opKinds += "p"
			o.Count("op.peer")
			o.Op(fmt.Sprintf("P %d %s", peer, bidStr(b)), obs)
			checkOracle()
		case 2, 3: // MakeCommit then VerifyCommit (genuine and mutated)
			var cm *types.Commit
			pan := catch(func() { cm = vs.MakeCommit() })
			opKinds += "m"
			o.Count("op.makecommit")
			if pan || cm == nil {
				o.Op("M", "m -")
				continue
			}
			o.Op("M", "m "+commitObs(cm))
			maj, _ := vs.TwoThirdsMajority()
			// round trip
			doVerify(o, r, vset, chain, maj, height, cm, total, step, true)
			// mutations
			nm := r.Intn(4)
			for m := 0; m < nm; m++ {
				mc, want, h := mutateCommit(r, cm, maj, height, pool, n, vset, keyOf, chain)
				doVerify(o, r, vset, chain, want, h, mc, total, step, false)
			}
		case 6: // CommitToVoteSet(MakeCommit()) is the inverse of MakeCommit; also on a mutated commit
			var cm *types.Commit
			pan := catch(func() { cm = vs.MakeCommit() })
			opKinds += "t"
			if pan || cm == nil {
				o.Op("M", "m -")
				continue
			}
			o.Op("M", "m "+commitObs(cm))
			maj, _ := vs.TwoThirdsMajority()
			doToVoteSet(o, vset, chain, cm, step, maj.IsComplete() && allWireValid(vs, n))
			if r.Chance(1, 2) {
				mc, _, _ := mutateCommit(r, cm, maj, height, pool, n, vset, keyOf, chain)
				doToVoteSet(o, vset, chain, mc, step, false)
			}
		case 4: // a commit assembled directly from signatures (not through a vote set)
			opKinds += "d"
			mc, want, h := directCommit(o, r, vset, keyOf, chain, height, round, total)
			doVerify(o, r, vset, chain, want, h, mc, total, step, false)
			if r.Chance(1, 4) {
				doToVoteSet(o, vset, chain, mc, step, false)
			}
			if r.Chance(1, 8) {
				doVerifyNil(o, vset, chain, want, h, step)
			}
		}
	}
	if strings.Contains(outcome, "M") || strings.ContainsAny(outcome, "csnia") {
		o.Mark(fmt.Sprintf("%v|%s|%s", powers, opKinds, outcome))
	}
}

// voteOracle: what must hold of one AddVote call whatever the history.
func voteOracle(o *out.Out, step int, valid, added bool, ec, before, after string) {
	if valid && ec != "none" && ec != "conflict" && ec != "nondet" {
		o.Fail(step, "valid-vote-rejected", "a valid vote was rejected with "+ec)
	}
	if !valid && added {
		o.Fail(step, "invalid-vote-added", "an invalid vote was added")
	}
	// C02_rejected_unchanged: a vote rejected with anything but a conflict, and a duplicate,
	// must leave every observable of the vote set as it was
	if (ec != "none" && ec != "conflict") || (ec == "none" && !added) {
		if added {
			o.Fail(step, "rejected-but-added", "AddVote returned added=true together with error class "+ec)
		}
		if after != before {
			o.Fail(step, "rejected-changed-state", fmt.Sprintf("vote rejected with %s changed the vote set: %s -> %s", ec, before, after))
		}
	}
}

func voteTokens(v *types.Vote) string {
	return fmt.Sprintf("%d %d %d %d %d %d %s %s", v.ValidatorIndex, addrID[v.ValidatorAddress], v.Height, v.Round, int(v.Type), tmID(v.Timestamp), bidStr(v.BlockID), sigTokens(v.Signature))
}

var voteTimes = []time.Time{time.Unix(1600000000, 0).UTC(), time.Unix(1600000001, 500).UTC()}

func otherType(ty kproto.SignedMsgType) kproto.SignedMsgType {
	if ty == kproto.PrevoteType {
		return kproto.PrecommitType
	}
	return kproto.PrevoteType
}

// genVote: a vote of validator idx for the step (height, round, ty), mostly valid (block id biased to the
// "main" block of the case), else one of the malformed kinds.  valid = right step, index, address and a
// signature by that validator's key over exactly the vote.
func genVote(r *gen.Rand, vset *types.ValidatorSet, keyOf func(int) int, chain string, height uint64, round uint32, ty kproto.SignedMsgType, mainB int) (*types.Vote, bool, int, int) {
	v, valid, _, idx, mut := genVoteR(r, vset, keyOf, chain, height, round, ty, mainB)
	return v, valid, idx, mut
}

// genVoteR also returns routed: the vote is a valid vote of the vote set of ITS OWN (round, type) at this
// height (a HeightVoteSet routes by these two fields): only the round or the type were changed, before signing.
func genVoteR(r *gen.Rand, vset *types.ValidatorSet, keyOf func(int) int, chain string, height uint64, round uint32, ty kproto.SignedMsgType, mainB int) (*types.Vote, bool, bool, int, int) {
	n := vset.Size()
	idx := r.Intn(n)
	b := pool[mainB]
	switch r.Pick(20, 6, 4, 4, 4, 1, 1) {
	case 1:
		b = pool[0]
	case 2:
		b = pool[3]
	case 3:
		b = pool[3-mainB]
	case 4:
		b = pool[4]
	case 5:
		b = pool[5]
	case 6:
		b = pool[6]
	}
	v := &types.Vote{ValidatorAddress: vset.Validators[idx].Address, ValidatorIndex: uint32(idx), Height: height, Round: round,
		Timestamp: voteTimes[r.Pick(5, 1)], Type: ty, BlockID: b}
	valid := true
	routed := true
	mut := r.Pick(24, 1, 1, 1, 1, 1, 1, 1, 1, 1, 1, 1, 1)
	signed := false
	// two faults at once pin the ORDER of the checks of addVote (empty address, step, index, address of
	// that index, known vote, signature): a stateless field fault first, then the fault chosen above
	if mut != 0 && r.Chance(1, 5) {
		switch r.Intn(5) {
		case 0:
			v.Height = height + 2
			valid, routed = false, false
		case 1:
			v.Round = round + 2
			valid = false
		case 2:
			v.ValidatorIndex = uint32(n + 1)
			valid, routed = false, false
		case 3:
			v.ValidatorAddress = common.Address{}
			valid, routed = false, false
		case 4:
			if n > 1 {
				v.ValidatorAddress = vset.Validators[(idx+1)%n].Address
				valid, routed = false, false
			}
		}
	}
	switch mut {
	case 1: // wrong height
		v.Height = height + 1
		if r.Chance(1, 3) {
			v.Height = height - 1 // includes height 0
		}
		valid, routed = false, false
	case 2: // wrong round
		v.Round = round + 1
		if r.Chance(1, 3) && round > 0 {
			v.Round = round - 1
		}
		valid = false
	case 3: // wrong type
		v.Type = otherType(ty)
		valid = false
	case 4: // index out of range: first index past the end, a bit further, MaxUint32
		v.ValidatorIndex = uint32(n + r.Intn(3))
		if r.Chance(1, 4) {
			v.ValidatorIndex = uint32(n + 1000)
		}
		valid, routed = false, false
	case 5: // index of another validator, own address
		if n > 1 {
			v.ValidatorIndex = uint32((idx + 1) % n)
			valid, routed = false, false
		}
	case 6: // zero address
		v.ValidatorAddress = common.Address{}
		valid, routed = false, false
	case 7: // signed by a different key
		v.Signature = signVote((keyOf(idx)+1)%nKeys, chain, v)
		signed, valid, routed = true, false, false
	case 8: // signed for another chain
		v.Signature = signVote(keyOf(idx), chains[2], v)
		signed, valid, routed = true, false, false
	case 9: // signature over a different height / round / type / block id / time
		w := *v
		switch r.Intn(5) {
		case 0:
			w.Round = round + 1
		case 1:
			w.Type = otherType(ty)
		case 2:
			w.BlockID = pool[(1 + r.Intn(4))]
			if w.BlockID.Equal(v.BlockID) {
				w.BlockID = pool[0]
			}
		case 3:
			w.Timestamp = time.Unix(1700000000, 0).UTC()
		case 4:
			w.Height = height + 1
		}
		v.Signature = signVote(keyOf(idx), chain, &w)
		signed, valid, routed = true, false, false
	case 10: // garbage 65 bytes
		v.Signature = garbageSig(r, 65)
		signed, valid, routed = true, false, false
	case 11: // short / long / empty
		v.Signature = garbageSig(r, []int{0, 1, 10, 64, 66}[r.Intn(5)])
		signed, valid, routed = true, false, false
	case 12: // address and index of another validator, signed by idx's key
		if n > 1 {
			j := (idx + 1) % n
			v.ValidatorAddress = vset.Validators[j].Address
			v.ValidatorIndex = uint32(j)
			v.Signature = signVote(keyOf(idx), chain, v)
			signed, valid, routed = true, false, false
		}
	}
	if !signed {
		v.Signature = signVote(keyOf(idx), chain, v)
	}
	return v, valid, routed, idx, mut
}

// allWireValid: every stored canonical vote has a zero or complete block id (what Vote.ValidateBasic
// enforces on the wire; MakeCommit/CommitToVoteSet are only specified for such votes).
func allWireValid(vs *types.VoteSet, n int) bool {
	for i := 0; i < n; i++ {
		if v := vs.GetByIndex(uint32(i)); v != nil && !v.BlockID.IsZero() && !v.BlockID.IsComplete() {
			return false
		}
	}
	return true
}

func b01(b bool) string {
	if b {
		return "1"
	}
	return "0"
}

func commitObs(c *types.Commit) string {
	parts := []string{}
	for _, cs := range c.Signatures {
		parts = append(parts, fmt.Sprintf("%d,%d,%d,%d", cs.BlockIDFlag, addrID[cs.ValidatorAddress], tmID(cs.Timestamp), sigIDorZero(cs.Signature)))
	}
	return fmt.Sprintf("%d %d %s %s", c.Height, c.Round, bidObs(c.BlockID), strings.Join(parts, ";"))
}

func sigIDorZero(s []byte) int {
	if len(s) == 0 {
		return 0
	}
	return sigID(s)
}

func commitIn(want types.BlockID, h uint64, c *types.Commit) string {
	return fmt.Sprintf("X %s %d %d %d %s %d", bidStr(want), h, c.Height, c.Round, bidStr(c.BlockID), len(c.Signatures)) + sigLines(c)
}

func sigLines(c *types.Commit) string {
	s := ""
	for _, cs := range c.Signatures {
		st := ""
		if len(cs.Signature) == 0 {
			st = "0 1 0 0 0 0 0 0 0 0 0"
		} else {
			st = sigTokens(cs.Signature)
		}
		s += fmt.Sprintf("\nS %d %d %d %s", cs.BlockIDFlag, addrID[cs.ValidatorAddress], tmID(cs.Timestamp), st)
	}
	return s
}

func doVerify(o *out.Out, r *gen.Rand, vset *types.ValidatorSet, chain string, want types.BlockID, h uint64, c *types.Commit, total *big.Int, step int, genuine bool) {
	var err error
	pan := catch(func() { err = vset.VerifyCommit(chain, want, h, c) })
	obs := "x PANIC"
	if !pan {
		obs = "x " + commitErrClass(err)
	} else if c.Height == 0 && hasUnknownFlag(c) {
		// a commit of height 0 is not validated (Commit.ValidateBasic checks nothing below height 1), so a
		// slot with an unknown BlockIDFlag reaches CommitSig.BlockID, which panics.  No caller verifies a
		// commit for height 0; the model has this panic (verify_commit_x).
		o.Count("op.verify.height0-unknown-flag-panic")
	} else {
		o.Fail(step, "verifycommit-panic", "VerifyCommit panicked")
	}
	o.Count("op.verify." + obs[2:])
	o.Op(commitIn(want, h, c), obs)
	if pan {
		return
	}
	if genuine && err != nil && want.IsComplete() {
		o.Fail(step, "commit-roundtrip", "MakeCommit output rejected by VerifyCommit: "+err.Error())
	}
	if err == nil {
		// independent tally
		ok := len(c.Signatures) == vset.Size() && c.Height == h && want.Equal(c.BlockID)
		sum := new(big.Int)
		for i, cs := range c.Signatures {
			if cs.BlockIDFlag != types.BlockIDFlagCommit || i >= vset.Size() {
				continue
			}
			si := sigs[string(cs.Signature)]
			if si == nil || si.signer != addrID[vset.Validators[i].Address] || si.chain != chainID(chain) || si.ty != int64(kproto.PrecommitType) ||
				si.height != int64(h) || si.round != int64(c.Round) || !si.bid.Equal(want) || si.tm != tmID(cs.Timestamp) {
				continue
			}
			sum.Add(sum, big.NewInt(vset.Validators[i].VotingPower))
		}
		for i, cs := range c.Signatures {
			if cs.BlockIDFlag != types.BlockIDFlagAbsent && i < vset.Size() && !cs.ValidatorAddress.Equal(vset.Validators[i].Address) {
				o.Fail(step, "commit-address-forged", fmt.Sprintf("VerifyCommit accepted a commit whose slot %d names address #%d instead of the validator of that position (the block-time median weighs the slot by this address)", i, addrID[cs.ValidatorAddress]))
				break
			}
		}
		if !ok || new(big.Int).Mul(sum, big.NewInt(3)).Cmp(new(big.Int).Mul(total, big.NewInt(2))) <= 0 {
			o.Fail(step, "verifycommit-unsound", fmt.Sprintf("VerifyCommit accepted a commit whose valid for-block signers hold %s of %s", sum, total))
		}
	}
}

func mutateCommit(r *gen.Rand, c *types.Commit, maj types.BlockID, height uint64, pool []types.BlockID, n int, vset *types.ValidatorSet, keyOf func(int) int, chain string) (*types.Commit, types.BlockID, uint64) {
	mc := c.Copy()
	mc.Signatures = append([]types.CommitSig{}, c.Signatures...)
	want, h := maj, height
	switch r.Intn(16) {
	case 0: // drop one signature (absent)
		mc.Signatures[r.Intn(len(mc.Signatures))] = types.NewCommitSigAbsent()
	case 1: // drop until below quorum: all absent except one
		for i := range mc.Signatures {
			if i > 0 {
				mc.Signatures[i] = types.NewCommitSigAbsent()
			}
		}
	case 2: // wrong size
		if r.Bool() && len(mc.Signatures) > 1 {
			mc.Signatures = mc.Signatures[:len(mc.Signatures)-1]
		} else {
			mc.Signatures = append(mc.Signatures, types.NewCommitSigAbsent())
		}
	case 3: // wrong height asked
		h = height + 1
	case 4: // wrong commit height
		mc.Height = height + 1
	case 5: // wrong wanted id (other total)
		want = pool[3]
		if want.Equal(maj) {
			want = pool[1]
		}
	case 6: // commit for another id
		mc.BlockID = pool[3]
		if mc.BlockID.Equal(maj) {
			mc.BlockID = pool[1]
		}
		if r.Bool() {
			want = mc.BlockID
		}
	case 7: // swap two signatures
		if len(mc.Signatures) > 1 {
			i := r.Intn(len(mc.Signatures) - 1)
			mc.Signatures[i], mc.Signatures[i+1] = mc.Signatures[i+1], mc.Signatures[i]
		}
	case 8: // flag flips
		i := r.Intn(len(mc.Signatures))
		cs := mc.Signatures[i]
		cs.BlockIDFlag = types.BlockIDFlag(1 + r.Intn(4))
		mc.Signatures[i] = cs
	case 9: // round changed
		mc.Round = c.Round + 1
	case 11: // forged ValidatorAddress only (signature untouched): another member's address
		i := r.Intn(len(mc.Signatures))
		cs := mc.Signatures[i]
		cs.ValidatorAddress = vset.Validators[(i+1+r.Intn(len(mc.Signatures)))%len(mc.Signatures)].Address
		mc.Signatures[i] = cs
	case 12: // forged ValidatorAddress in every slot but one (rotate the addresses)
		keep := r.Intn(len(mc.Signatures))
		for i := range mc.Signatures {
			if i != keep && mc.Signatures[i].BlockIDFlag != types.BlockIDFlagAbsent {
				cs := mc.Signatures[i]
				cs.ValidatorAddress = vset.Validators[(i+1)%len(mc.Signatures)].Address
				mc.Signatures[i] = cs
			}
		}
	case 13: // commit height 0: Commit.ValidateBasic checks nothing, the size and height checks come next
		mc.Height = 0
		switch r.Intn(3) {
		case 0:
			i := r.Intn(len(mc.Signatures))
			cs := mc.Signatures[i]
			cs.BlockIDFlag = types.BlockIDFlag([]int{0, 4, 255}[r.Intn(3)])
			mc.Signatures[i] = cs
		case 1:
			mc.Signatures = append(mc.Signatures, types.NewCommitSigAbsent())
		}
	case 14: // commit height 0 verified for height 0: the signatures are for the real height
		mc.Height = 0
		h = 0
		if r.Bool() {
			i := r.Intn(len(mc.Signatures))
			cs := mc.Signatures[i]
			cs.BlockIDFlag = types.BlockIDFlag([]int{0, 4, 255}[r.Intn(3)])
			mc.Signatures[i] = cs
		}
	case 15: // an absent slot that still carries an address, a time or a signature / a nil block id
		if r.Chance(1, 3) {
			mc.BlockID = types.BlockID{}
			if r.Bool() {
				mc.BlockID = pool[6] // zero hash, non-zero parts header: not the nil block
			}
			if r.Bool() {
				want = mc.BlockID
			}
			break
		}
		i := r.Intn(len(mc.Signatures))
		cs := types.NewCommitSigAbsent()
		switch r.Intn(3) {
		case 0:
			cs.ValidatorAddress = vset.Validators[i].Address
		case 1:
			cs.Timestamp = time.Unix(1600000000, 0).UTC()
		case 2:
			cs.Signature = garbageSig(r, 65)
		}
		mc.Signatures[i] = cs
	case 10: // a prevote-typed signature in place of a precommit, or nil-vote signature flagged as commit
		i := r.Intn(len(mc.Signatures))
		cs := mc.Signatures[i]
		v := &types.Vote{Type: kproto.PrevoteType, Height: mc.Height, Round: mc.Round, BlockID: mc.BlockID, Timestamp: time.Unix(1600000000, 0).UTC()}
		if r.Bool() {
			v.Type = kproto.PrecommitType
			v.BlockID = types.BlockID{}
		}
		cs.BlockIDFlag = types.BlockIDFlagCommit
		cs.ValidatorAddress = vset.Validators[i].Address
		cs.Timestamp = v.Timestamp
		cs.Signature = signVote(keyOf(i), chain, v)
		mc.Signatures[i] = cs
	}
	return mc, want, h
}

func hasUnknownFlag(c *types.Commit) bool {
	for _, cs := range c.Signatures {
		if cs.BlockIDFlag != types.BlockIDFlagAbsent && cs.BlockIDFlag != types.BlockIDFlagCommit && cs.BlockIDFlag != types.BlockIDFlagNil {
			return true
		}
	}
	return false
}

// doVerifyNil: VerifyCommit(nil commit) is an error, not a panic.
func doVerifyNil(o *out.Out, vset *types.ValidatorSet, chain string, want types.BlockID, h uint64, step int) {
	var err error
	pan := catch(func() { err = vset.VerifyCommit(chain, want, h, nil) })
	obs := "x PANIC"
	if pan {
		o.Fail(step, "verifycommit-panic", "VerifyCommit(nil) panicked")
	} else {
		obs = "x " + commitErrClass(err)
		if err == nil {
			o.Fail(step, "verifycommit-unsound", "VerifyCommit accepted a nil commit")
		}
	}
	o.Count("op.verify.nil")
	o.Op(fmt.Sprintf("XN %s %d", bidStr(want), h), obs)
}

// slotValidFor: does slot i of the commit carry a signature by validator i's key over exactly the
// precommit (chain, c.Height, c.Round, id, slot time), id = the commit's block id for a for-block slot and
// nil otherwise, and is that id the wanted one?  (lookup in the registry of signatures the harness made)
func slotValidFor(vset *types.ValidatorSet, chain string, c *types.Commit, i int, want types.BlockID) bool {
	cs := c.Signatures[i]
	if cs.BlockIDFlag == types.BlockIDFlagAbsent || i >= vset.Size() {
		return false
	}
	id := types.BlockID{}
	if cs.BlockIDFlag == types.BlockIDFlagCommit {
		id = c.BlockID
	}
	si := sigs[string(cs.Signature)]
	return si != nil && !si.empty && si.signer == addrID[vset.Validators[i].Address] && si.chain == chainID(chain) &&
		si.ty == int64(kproto.PrecommitType) && si.height == int64(c.Height) && si.round == int64(c.Round) &&
		si.bid.Equal(id) && id.Equal(want) && si.tm == tmID(cs.Timestamp) && cs.ValidatorAddress.Equal(vset.Validators[i].Address)
}

// doToVoteSet: CommitToVoteSet(chain, c, vset); genuine = c is the MakeCommit output of a vote set with a
// complete majority id and wire-valid votes: then it must not panic, report the same majority and
// MakeCommit of the result must give c back (inverse).  Whatever c: a majority reported by the rebuilt vote
// set must be backed by +2/3 valid slots for that exact id.
func doToVoteSet(o *out.Out, vset *types.ValidatorSet, chain string, c *types.Commit, step int, genuine bool) {
	n := vset.Size()
	var vs2 *types.VoteSet
	pan := catch(func() { vs2 = types.CommitToVoteSet(chain, c, vset) })
	in := fmt.Sprintf("TC %d %d %s %d", c.Height, c.Round, bidStr(c.BlockID), len(c.Signatures)) + sigLines(c)
	obs := "t PANIC"
	var c2 *types.Commit
	if !pan && vs2 != nil {
		obs = "t " + vsObs(vs2, n)
		if !catch(func() { c2 = vs2.MakeCommit() }) && c2 != nil {
			obs += " | " + commitObs(c2)
		} else {
			c2 = nil
			obs += " | -"
		}
	}
	o.Count("op.tovoteset." + obs[2:3])
	o.Op(in, obs)
	if genuine {
		if pan || vs2 == nil {
			o.Fail(step, "commit-to-voteset-panic", "CommitToVoteSet panicked on the output of MakeCommit")
		} else if m, ok := vs2.TwoThirdsMajority(); !ok || !m.Equal(c.BlockID) {
			o.Fail(step, "commit-to-voteset-not-inverse", "the vote set rebuilt from MakeCommit's output reports no or another majority")
		} else if c2 == nil || commitObs(c2) != commitObs(c) {
			o.Fail(step, "commit-to-voteset-not-inverse", "MakeCommit(CommitToVoteSet(c)) differs from c")
		}
	}
	if !pan && vs2 != nil {
		if m, ok := vs2.TwoThirdsMajority(); ok {
			sum, total := new(big.Int), new(big.Int)
			for i, val := range vset.Validators {
				total.Add(total, big.NewInt(val.VotingPower))
				if i < len(c.Signatures) && slotValidFor(vset, chain, c, i, m) {
					sum.Add(sum, big.NewInt(val.VotingPower))
				}
			}
			if new(big.Int).Mul(sum, big.NewInt(3)).Cmp(new(big.Int).Mul(total, big.NewInt(2))) <= 0 {
				o.Fail(step, "commit-to-voteset-unsound", fmt.Sprintf("the vote set rebuilt from a commit reports %s but the valid slots for it hold %s of %s", bidObs(m), sum, total))
			}
		}
	}
}

// directCommit: a commit assembled slot by slot from freshly made signatures: signer subsets AT the
// two-thirds boundary (exactly 2T/3 where a subset hits it, the largest below, the smallest above), everyone,
// a random subset, nil-flagged slots with valid nil precommits, a commit of height 0.
func directCommit(o *out.Out, r *gen.Rand, vset *types.ValidatorSet, keyOf func(int) int, chain string, height uint64, round uint32, total *big.Int) (*types.Commit, types.BlockID, uint64) {
	n := vset.Size()
	b := pool[1+r.Intn(2)]
	ch, h := height, height
	rd := round + uint32(r.Intn(2))
	mode := r.Pick(6, 1, 2, 3, 2)
	in := make([]bool, n)
	three, two := big.NewInt(3), big.NewInt(2)
	cmp23 := func(sum *big.Int) int { return new(big.Int).Mul(sum, three).Cmp(new(big.Int).Mul(total, two)) }
	boundary := func() string {
		variant := r.Intn(3) // 0: exactly 2/3 if some subset hits it, else largest below; 1: largest below or equal; 2: smallest above
		if n <= 7 {
			best, bestSum := -1, new(big.Int)
			for m := 0; m < 1<<uint(n); m++ {
				sum := new(big.Int)
				for i := 0; i < n; i++ {
					if m>>uint(i)&1 == 1 {
						sum.Add(sum, big.NewInt(vset.Validators[i].VotingPower))
					}
				}
				c := cmp23(sum)
				ok := (variant == 2 && c > 0) || (variant != 2 && c <= 0)
				if !ok {
					continue
				}
				better := best < 0 || (variant == 2 && sum.Cmp(bestSum) < 0) || (variant != 2 && sum.Cmp(bestSum) > 0) ||
					(sum.Cmp(bestSum) == 0 && r.Bool())
				if better {
					best, bestSum = m, sum
				}
			}
			if best < 0 {
				best = 0
			}
			for i := 0; i < n; i++ {
				in[i] = best>>uint(i)&1 == 1
			}
			switch cmp23(bestSum) {
			case 0:
				return "exact"
			case 1:
				return "above"
			}
			return "below"
		}
		sum := new(big.Int)
		last := -1
		for _, i := range r.Perm(n) {
			in[i] = true
			last = i
			sum.Add(sum, big.NewInt(vset.Validators[i].VotingPower))
			if cmp23(sum) > 0 {
				break
			}
		}
		if variant != 2 && last >= 0 {
			in[last] = false
			sum.Sub(sum, big.NewInt(vset.Validators[last].VotingPower))
			if cmp23(sum) == 0 {
				return "exact"
			}
			return "below"
		}
		return "above"
	}
	nilRest := false
	switch mode {
	case 0:
		o.Count("direct.boundary." + boundary())
	case 1:
		for i := range in {
			in[i] = true
		}
		o.Count("direct.everyone")
	case 2:
		for i := range in {
			in[i] = r.Bool()
		}
		o.Count("direct.random")
	case 3: // boundary subset for the block, everybody else signs nil (valid signatures that must not count)
		o.Count("direct.nilrest." + boundary())
		nilRest = true
	case 4: // height 0: nothing is validated before the size/height/id checks
		ch, h = 0, 0
		for i := range in {
			in[i] = r.Chance(3, 4)
		}
		o.Count("direct.height0")
	}
	sigsl := make([]types.CommitSig, n)
	for i := 0; i < n; i++ {
		addr := vset.Validators[i].Address
		ts := voteTimes[r.Pick(3, 1)]
		switch {
		case in[i]:
			v := &types.Vote{Type: kproto.PrecommitType, Height: ch, Round: rd, BlockID: b, Timestamp: ts, ValidatorAddress: addr, ValidatorIndex: uint32(i)}
			sigsl[i] = types.CommitSig{BlockIDFlag: types.BlockIDFlagCommit, ValidatorAddress: addr, Timestamp: ts, Signature: signVote(keyOf(i), chain, v)}
		case nilRest:
			v := &types.Vote{Type: kproto.PrecommitType, Height: ch, Round: rd, BlockID: types.BlockID{}, Timestamp: ts, ValidatorAddress: addr, ValidatorIndex: uint32(i)}
			sigsl[i] = types.CommitSig{BlockIDFlag: types.BlockIDFlagNil, ValidatorAddress: addr, Timestamp: ts, Signature: signVote(keyOf(i), chain, v)}
		default:
			sigsl[i] = types.NewCommitSigAbsent()
		}
	}
	if mode == 4 && r.Bool() {
		i := r.Intn(n)
		sigsl[i].BlockIDFlag = types.BlockIDFlag([]int{0, 4, 255}[r.Intn(3)])
	}
	return types.NewCommit(ch, rd, b, sigsl), b, h
}

// statelessVoteOps: Vote.ValidateBasic and Vote.Verify called directly on a generated vote.
func statelessVoteOps(o *out.Out, r *gen.Rand, vset *types.ValidatorSet, chain string, v *types.Vote, step int) {
	w := *v
	if r.Chance(1, 4) {
		w.Type = kproto.SignedMsgType([]int32{0, 3, 32}[r.Intn(3)])
	}
	var err error
	if catch(func() { err = w.ValidateBasic() }) {
		o.Op("VB "+voteTokens(&w), "vb PANIC")
		o.Fail(step, "vote-validatebasic-panic", "Vote.ValidateBasic panicked")
	} else {
		o.Count("op.validatebasic." + b01(err == nil))
		o.Op("VB "+voteTokens(&w), "vb "+b01(err == nil))
		wire := w.BlockID.IsZero() || w.BlockID.IsComplete()
		if err == nil && (!wire || len(w.Signature) == 0 || !types.IsVoteTypeValid(w.Type)) {
			o.Fail(step, "vote-validatebasic-unsound", "ValidateBasic accepted a vote with an invalid type, a half-set block id or no signature")
		}
	}
	addr := v.ValidatorAddress
	if r.Bool() {
		addr = vset.Validators[r.Intn(vset.Size())].Address
	}
	if catch(func() { err = v.Verify(chain, addr) }) {
		o.Op(fmt.Sprintf("VV %d %s", addrID[addr], voteTokens(v)), "vv PANIC")
		o.Fail(step, "vote-verify-panic", "Vote.Verify panicked")
		return
	}
	ec := errClass(err)
	o.Count("op.voteverify." + ec)
	o.Op(fmt.Sprintf("VV %d %s", addrID[addr], voteTokens(v)), "vv "+ec)
	si := sigs[string(v.Signature)]
	good := si != nil && !si.empty && si.signer != 0 && si.signer == addrID[addr] && si.chain == chainID(chain) && si.ty == int64(v.Type) &&
		si.height == int64(v.Height) && si.round == int64(v.Round) && si.bid.Equal(v.BlockID) && si.tm == tmID(v.Timestamp)
	if (err == nil) != (good && v.ValidatorAddress.Equal(addr)) {
		o.Fail(step, "vote-verify-unsound", fmt.Sprintf("Vote.Verify for address #%d answered %s but the vote names address #%d and carries a valid signature of #%d over its content: %v", addrID[addr], ec, addrID[v.ValidatorAddress], addrID[addr], good))
	}
}
