// C02 harness: drives the real types.VoteSet / ValidatorSet.VerifyCommit with generated
// vote/commit histories, prints the projected observables for the model driver, and
// evaluates the property directly (independent big.Int tally) on the implementation.
package main

import (
	"crypto/ecdsa"
	"fmt"
	"math/big"
	"strings"
	"time"

	"github.com/kardiachain/go-kardia/lib/common"
	"github.com/kardiachain/go-kardia/lib/crypto"
	"github.com/kardiachain/go-kardia/lib/p2p"
	kproto "github.com/kardiachain/go-kardia/proto/kardiachain/types"
	"github.com/kardiachain/go-kardia/types"

	"verif/harness/internal/gen"
	"verif/harness/internal/out"
)

type sigInfo struct {
	id                       int
	empty                    bool
	signer                   int // address id, 0 = nobody
	chain, ty, height, round int64
	bid                      types.BlockID
	tm                       int64
}

var (
	keys    []*ecdsa.PrivateKey
	addrID  = map[common.Address]int{}
	sigs    = map[string]*sigInfo{}
	nextSig = 1
	chains  = []string{"", "chain-A", "chain-B"}
)

func chainID(s string) int64 {
	for i, c := range chains {
		if c == s {
			return int64(i)
		}
	}
	return 99
}

func tmID(t time.Time) int64 {
	if t.IsZero() {
		return 0
	}
	return t.UnixNano()
}

func hnum(h common.Hash) string { return new(big.Int).SetBytes(h[:]).String() }

func bidStr(b types.BlockID) string {
	return fmt.Sprintf("%s %d %s", hnum(b.Hash), b.PartsHeader.Total, hnum(b.PartsHeader.Hash))
}
func bidObs(b types.BlockID) string {
	return fmt.Sprintf("%s:%d:%s", hnum(b.Hash), b.PartsHeader.Total, hnum(b.PartsHeader.Hash))
}

func sigTokens(sig []byte) string {
	si, ok := sigs[string(sig)]
	if !ok {
		// bytes the harness did not create: register as garbage
		si = &sigInfo{id: nextSig, empty: len(sig) == 0}
		nextSig++
		sigs[string(sig)] = si
	}
	e := 0
	if si.empty {
		e = 1
	}
	return fmt.Sprintf("%d %d %d %d %d %d %d %s %d", si.id, e, si.signer, si.chain, si.ty, si.height, si.round, bidStr(si.bid), si.tm)
}

func sigID(sig []byte) int {
	if si, ok := sigs[string(sig)]; ok {
		return si.id
	}
	return -1
}

// signVote signs the content (chain, vote fields) with key k and registers the ideal signature.
func signVote(k int, chain string, v *types.Vote) []byte {
	pv := v.ToProto()
	sb := types.VoteSignBytes(chain, pv)
	sig, err := crypto.Sign(crypto.Keccak256(sb), keys[k])
	if err != nil {
		panic(err)
	}
	if _, ok := sigs[string(sig)]; !ok {
		sigs[string(sig)] = &sigInfo{id: nextSig, signer: addrID[crypto.PubkeyToAddress(keys[k].PublicKey)],
			chain: chainID(chain), ty: int64(v.Type), height: int64(v.Height), round: int64(v.Round), bid: v.BlockID, tm: tmID(v.Timestamp)}
		nextSig++
	}
	return sig
}

func garbageSig(r *gen.Rand, n int) []byte {
	b := r.Bytes(n)
	if n == 65 {
		b[64] = byte(r.Intn(2))
	}
	if _, ok := sigs[string(b)]; !ok {
		sigs[string(b)] = &sigInfo{id: nextSig, empty: n == 0}
		nextSig++
	}
	return b
}

func catch(f func()) (panicked bool) {
	defer func() {
		if r := recover(); r != nil {
			panicked = true
		}
	}()
	f()
	return
}

func errClass(err error) string {
	if err == nil {
		return "none"
	}
	s := err.Error()
	switch {
	case strings.Contains(s, "Conflicting votes") || strings.Contains(s, "conflicting vote"):
		return "conflict"
	case strings.Contains(s, types.ErrVoteUnexpectedStep.Error()):
		return "step"
	case strings.Contains(s, types.ErrVoteInvalidValidatorIndex.Error()):
		return "index"
	case strings.Contains(s, types.ErrVoteInvalidValidatorAddress.Error()):
		return "addr"
	case strings.Contains(s, types.ErrVoteNonDeterministicSignature.Error()):
		return "nondet"
	case strings.Contains(s, types.ErrVoteInvalidSignature.Error()):
		return "sig"
	}
	return "other:" + s
}

func commitErrClass(err error) string {
	if err == nil {
		return "ok"
	}
	s := err.Error()
	switch err.(type) {
	case types.ErrInvalidCommitSignatures:
		return "size"
	case types.ErrInvalidCommitHeight:
		return "height"
	case types.ErrNotEnoughVotingPowerSigned:
		return "power"
	}
	switch {
	case strings.Contains(s, "wrong block id"):
		return "blockid"
	case strings.Contains(s, "wrong signature"):
		return "sig"
	case strings.Contains(s, "wrong validator address"):
		return "addr"
	case strings.Contains(s, "Commit cannot be for nil block"), strings.Contains(s, "no signatures in commit"), strings.Contains(s, "wrong CommitSig"):
		return "basic"
	}
	return "other:" + s
}

type tvote struct { // what the oracle knows about an offered vote
	idx   int
	bid   types.BlockID
	valid bool
}

func main() {
	out.WriteFacts(func() string {
		return fmt.Sprintf("From Coq Require Import ZArith.\nDefinition max_total_voting_power : Z := %d%%Z.\nDefinition max_votes_count : Z := %d%%Z.\n",
			types.MaxTotalVotingPower, types.MaxVotesCount)
	})
	o := out.Open()
	o.Rule = "a case is one VoteSet history (validator set, votes, peer claims, MakeCommit/VerifyCommit calls); non-trivial = the history reaches a +2/3 majority or contains a conflicting/duplicate/invalid vote; distinct by (validator powers, op-kind string, outcome string)"
	root := gen.New(*out.Seed)
	// deterministic keys
	for i := 0; i < 8; i++ {
		k, err := crypto.ToECDSA(crypto.Keccak256([]byte(fmt.Sprintf("verif-c02-key-%d", i))))
		if err != nil {
			panic(err)
		}
		keys = append(keys, k)
		addrID[crypto.PubkeyToAddress(k.PublicKey)] = i + 1
	}
	for c := 0; c < *out.N; c++ {
		if !out.Want(c) {
			continue
		}
		runCase(o, root.Fork(uint64(c)), c)
	}
	o.Close()
}

func mkBid(h, total, ph int) types.BlockID {
	return types.BlockID{Hash: common.BigToHash(big.NewInt(int64(h))), PartsHeader: types.PartSetHeader{Total: uint32(total), Hash: common.BigToHash(big.NewInt(int64(ph)))}}
}

func runCase(o *out.Out, r *gen.Rand, c int) {
	n := 1 + r.Intn(7)
	// power distribution
	powers := make([]int64, n)
	kind := r.Pick(3, 3, 3, 2, 2)
	capTotal := types.MaxTotalVotingPower
	switch kind {
	case 0: // all 1
		for i := range powers {
			powers[i] = 1
		}
	case 1: // equal
		p := int64(1 + r.Intn(100))
		for i := range powers {
			powers[i] = p
		}
	case 2: // small random, often total divisible by 3
		var t int64
		for i := range powers {
			powers[i] = int64(1 + r.Intn(9))
			t += powers[i]
		}
		if r.Bool() {
			for t%3 != 0 {
				powers[0]++
				t++
			}
		}
	case 3: // skewed
		for i := range powers {
			powers[i] = int64(1 + r.Intn(5))
		}
		powers[r.Intn(n)] = int64(50 + r.Intn(1000))
	case 4: // near the cap
		each := capTotal / int64(n)
		for i := range powers {
			powers[i] = each - int64(r.Intn(3))
		}
	}
	o.Count(fmt.Sprintf("powers.kind%d", kind))
	o.Count(fmt.Sprintf("nvals.%d", n))
	perm := r.Perm(8)
	vals := make([]*types.Validator, n)
	for i := 0; i < n; i++ {
		vals[i] = types.NewValidator(crypto.PubkeyToAddress(keys[perm[i]].PublicKey), powers[i])
	}
	vset := types.NewValidatorSet(vals)
	keyOf := func(idx int) int { // key index of validator idx
		return addrID[vset.Validators[idx].Address] - 1
	}
	total := new(big.Int)
	for _, v := range vset.Validators {
		total.Add(total, big.NewInt(v.VotingPower))
	}
	chain := chains[1]
	height := uint64(1 + r.Intn(5))
	round := uint32(1 + r.Intn(3))
	ty := kproto.PrevoteType
	if r.Chance(2, 3) {
		ty = kproto.PrecommitType
	}
	vs := types.NewVoteSet(chain, height, round, ty, vset)
	hdr := fmt.Sprintf("CASE %d %d %d %d %d %d", c, chainID(chain), height, round, int(ty), n)
	o.Case(c, hdr)
	for _, v := range vset.Validators {
		o.InOnly(fmt.Sprintf("VAL %d %d", addrID[v.Address], v.VotingPower))
	}

	// block-id pool: nil, A, B, A' (A with another total), A'' (A with another parts hash), malformed (hash only)
	pool := []types.BlockID{{}, mkBid(7, 1, 9), mkBid(8, 2, 10), mkBid(7, 2, 9), mkBid(7, 1, 11), mkBid(5, 0, 0)}
	times := []time.Time{time.Unix(1600000000, 0).UTC(), time.Unix(1600000001, 500).UTC()}

	offered := []tvote{}
	firstValid := map[int]*types.BlockID{}
	opKinds := ""
	outcome := ""
	step := 0

	powerOf := func(set map[int]bool) *big.Int {
		s := new(big.Int)
		for i := range set {
			s.Add(s, big.NewInt(vset.Validators[i].VotingPower))
		}
		return s
	}
	gt23 := func(p *big.Int) bool {
		return new(big.Int).Mul(p, big.NewInt(3)).Cmp(new(big.Int).Mul(total, big.NewInt(2))) > 0
	}
	checkOracle := func() {
		maj, ok := vs.TwoThirdsMajority()
		if ok {
			set := map[int]bool{}
			for _, tv := range offered {
				if tv.valid && tv.bid.Equal(maj) {
					set[tv.idx] = true
				}
			}
			if !gt23(powerOf(set)) {
				o.Fail(step, "maj23-unsound", fmt.Sprintf("maj23=%s but valid distinct signers of that exact id hold %s of %s", bidObs(maj), powerOf(set), total))
			}
		}
		if vs.HasTwoThirdsAny() {
			set := map[int]bool{}
			for _, tv := range offered {
				if tv.valid {
					set[tv.idx] = true
				}
			}
			if !gt23(powerOf(set)) {
				o.Fail(step, "any23-unsound", fmt.Sprintf("HasTwoThirdsAny but valid signers hold %s of %s", powerOf(set), total))
			}
		}
		if vs.HasAll() {
			set := map[int]bool{}
			for _, tv := range offered {
				if tv.valid {
					set[tv.idx] = true
				}
			}
			if powerOf(set).Cmp(total) != 0 {
				o.Fail(step, "hasall-unsound", "HasAll but not all validators offered a valid vote")
			}
		}
		// completeness: first valid votes
		byb := map[string]map[int]bool{}
		for i, b := range firstValid {
			k := bidObs(*b)
			if byb[k] == nil {
				byb[k] = map[int]bool{}
			}
			byb[k][i] = true
		}
		for k, set := range byb {
			if gt23(powerOf(set)) && !ok {
				o.Fail(step, "maj23-incomplete", fmt.Sprintf("validators with +2/3 power gave first valid vote for %s but no majority reported", k))
			}
		}
	}

	// observable state of the vote set (majority, any/all flags, bit array, per-block bit arrays of the pool)
	stateObs := func() string {
		maj, ok := vs.TwoThirdsMajority()
		ms := "-"
		if ok {
			ms = bidObs(maj)
		}
		st := fmt.Sprintf("%s %s %s %s", ms, b01(vs.HasTwoThirdsAny()), b01(vs.HasAll()), vs.BitArray().String())
		for _, pb := range pool {
			if ba := vs.BitArrayByBlockID(pb); ba != nil {
				st += " " + ba.String()
			} else {
				st += " nil"
			}
		}
		return st
	}

	nops := 3 + r.Intn(4*n+6)
	// bias: a "main" block most validators vote for
	mainB := 1 + r.Intn(2)
	for k := 0; k < nops; k++ {
		step = k
		pk := r.Pick(16, 2, 1, 1)
		if _, has := vs.TwoThirdsMajority(); has && ty == kproto.PrecommitType && r.Chance(1, 3) {
			pk = 2
		}
		switch pk {
		case 0: // vote
			idx := r.Intn(n)
			b := pool[mainB]
			switch r.Pick(10, 3, 2, 2, 2, 1) {
			case 1:
				b = pool[0]
			case 2:
				b = pool[3]
			case 3:
				b = pool[3-mainB]
			case 4:
				b = pool[4]
			case 5:
				b = pool[5]
			}
			v := &types.Vote{ValidatorAddress: vset.Validators[idx].Address, ValidatorIndex: uint32(idx), Height: height, Round: round,
				Timestamp: times[r.Pick(5, 1)], Type: ty, BlockID: b}
			valid := true
			mut := r.Pick(24, 1, 1, 1, 1, 1, 1, 1, 1, 1, 1, 1, 1)
			o.Count(fmt.Sprintf("vote.mut%d", mut))
			signed := false
			switch mut {
			case 1: // wrong height
				v.Height = height + 1
				valid = false
			case 2: // wrong round
				v.Round = round + 1
				valid = false
			case 3: // wrong type
				if ty == kproto.PrevoteType {
					v.Type = kproto.PrecommitType
				} else {
					v.Type = kproto.PrevoteType
				}
				valid = false
			case 4: // index out of range
				v.ValidatorIndex = uint32(n + r.Intn(3))
				valid = false
			case 5: // index of another validator, own address
				if n > 1 {
					v.ValidatorIndex = uint32((idx + 1) % n)
					valid = false
				}
			case 6: // zero address
				v.ValidatorAddress = common.Address{}
				valid = false
			case 7: // signed by a different key
				v.Signature = signVote((keyOf(idx)+1)%8, chain, v)
				signed, valid = true, false
			case 8: // signed for another chain
				v.Signature = signVote(keyOf(idx), chains[2], v)
				signed, valid = true, false
			case 9: // signature over a different round / type / block id / time
				w := *v
				switch r.Intn(4) {
				case 0:
					w.Round = round + 1
				case 1:
					if ty == kproto.PrevoteType {
						w.Type = kproto.PrecommitType
					} else {
						w.Type = kproto.PrevoteType
					}
				case 2:
					w.BlockID = pool[(1+r.Intn(4))]
					if w.BlockID.Equal(v.BlockID) {
						w.BlockID = pool[0]
					}
				case 3:
					w.Timestamp = time.Unix(1700000000, 0).UTC()
				}
				v.Signature = signVote(keyOf(idx), chain, &w)
				signed, valid = true, false
			case 10: // garbage 65 bytes
				v.Signature = garbageSig(r, 65)
				signed, valid = true, false
			case 11: // short / long / empty
				v.Signature = garbageSig(r, []int{0, 1, 10, 64, 66}[r.Intn(5)])
				signed, valid = true, false
			case 12: // address of another validator with matching index of that one => actually a valid vote by that validator if signed by it; here signed by idx's key
				if n > 1 {
					j := (idx + 1) % n
					v.ValidatorAddress = vset.Validators[j].Address
					v.ValidatorIndex = uint32(j)
					v.Signature = signVote(keyOf(idx), chain, v)
					signed, valid = true, false
				}
			}
			if !signed {
				kidx := idx
				if int(v.ValidatorIndex) < n && mut == 5 {
					kidx = idx
				}
				v.Signature = signVote(keyOf(kidx), chain, v)
			}
			in := fmt.Sprintf("V %d %d %d %d %d %d %s %s", v.ValidatorIndex, addrID[v.ValidatorAddress], v.Height, v.Round, int(v.Type), tmID(v.Timestamp), bidStr(v.BlockID), sigTokens(v.Signature))
			var added bool
			var err error
			before := stateObs()
			pan := catch(func() { added, err = vs.AddVote(v) })
			if valid {
				offered = append(offered, tvote{idx: idx, bid: v.BlockID, valid: true})
				if _, seen := firstValid[idx]; !seen {
					bb := v.BlockID
					firstValid[idx] = &bb
				}
			}
			var obs string
			if pan {
				obs = "v PANIC"
				o.Fail(step, "addvote-panic", "AddVote panicked")
			} else {
				maj, ok := vs.TwoThirdsMajority()
				ms := "-"
				if ok {
					ms = bidObs(maj)
				}
				ba := vs.BitArray()
				bits := ""
				for i := 0; i < n; i++ {
					if ba.GetIndex(i) {
						bits += "1"
					} else {
						bits += "0"
					}
				}
				obs = fmt.Sprintf("v %s %s %s %s %s %s", b01(added), errClass(err), ms, b01(vs.HasTwoThirdsAny()), b01(vs.HasAll()), bits)
				ec := errClass(err)
				outcome += ec[:1]
				if ok {
					outcome += "M"
				}
				if valid && err != nil && ec != "conflict" && ec != "nondet" {
					o.Fail(step, "valid-vote-rejected", "a valid vote was rejected with "+ec)
				}
				if !valid && added {
					o.Fail(step, "invalid-vote-added", "an invalid vote was added")
				}
				// C02_rejected_unchanged: a vote rejected with anything but a conflict, and a duplicate,
				// must leave every observable of the vote set as it was
				if (ec != "none" && ec != "conflict") || (ec == "none" && !added) {
					if added {
						o.Fail(step, "rejected-but-added", "AddVote returned added=true together with error class "+ec)
					}
					if after := stateObs(); after != before {
						o.Fail(step, "rejected-changed-state", fmt.Sprintf("vote rejected with %s changed the vote set: %s -> %s", ec, before, after))
					}
				}
			}
			opKinds += "v"
			o.Op(in, obs)
			checkOracle()
		case 1: // peer maj23 claim
			peer := 1 + r.Intn(3)
			b := pool[r.Intn(5)]
			var err error
			pan := catch(func() { err = vs.SetPeerMaj23(p2p.ID(fmt.Sprintf("peer%d", peer)), b) })
			obs := "p PANIC"
			if !pan {
				maj, ok := vs.TwoThirdsMajority()
				ms := "-"
				if ok {
					ms = bidObs(maj)
				}
				obs = fmt.Sprintf("p %s %s", b01(err != nil), ms)
			}
			opKinds += "p"
			o.Count("op.peer")
			o.Op(fmt.Sprintf("P %d %s", peer, bidStr(b)), obs)
			checkOracle()
		case 2, 3: // MakeCommit then VerifyCommit (genuine and mutated)
			var cm *types.Commit
			pan := catch(func() { cm = vs.MakeCommit() })
			opKinds += "m"
			o.Count("op.makecommit")
			if pan || cm == nil {
				o.Op("M", "m -")
				continue
			}
			o.Op("M", "m "+commitObs(cm))
			maj, _ := vs.TwoThirdsMajority()
			// round trip
			doVerify(o, r, vset, chain, maj, height, cm, total, step, true)
			// mutations
			nm := r.Intn(4)
			for m := 0; m < nm; m++ {
				mc, want, h := mutateCommit(r, cm, maj, height, pool, n, vset, keyOf, chain)
				doVerify(o, r, vset, chain, want, h, mc, total, step, false)
			}
		}
	}
	if strings.Contains(outcome, "M") || strings.ContainsAny(outcome, "csnia") {
		o.Mark(fmt.Sprintf("%v|%s|%s", powers, opKinds, outcome))
	}
}

func b01(b bool) string {
	if b {
		return "1"
	}
	return "0"
}

func commitObs(c *types.Commit) string {
	parts := []string{}
	for _, cs := range c.Signatures {
		parts = append(parts, fmt.Sprintf("%d,%d,%d,%d", cs.BlockIDFlag, addrID[cs.ValidatorAddress], tmID(cs.Timestamp), sigIDorZero(cs.Signature)))
	}
	return fmt.Sprintf("%d %d %s %s", c.Height, c.Round, bidObs(c.BlockID), strings.Join(parts, ";"))
}

func sigIDorZero(s []byte) int {
	if len(s) == 0 {
		return 0
	}
	return sigID(s)
}

func commitIn(want types.BlockID, h uint64, c *types.Commit) string {
	s := fmt.Sprintf("X %s %d %d %d %s %d", bidStr(want), h, c.Height, c.Round, bidStr(c.BlockID), len(c.Signatures))
	for _, cs := range c.Signatures {
		st := ""
		if len(cs.Signature) == 0 {
			st = "0 1 0 0 0 0 0 0 0 0 0"
		} else {
			st = sigTokens(cs.Signature)
		}
		s += fmt.Sprintf("\nS %d %d %d %s", cs.BlockIDFlag, addrID[cs.ValidatorAddress], tmID(cs.Timestamp), st)
	}
	return s
}

func doVerify(o *out.Out, r *gen.Rand, vset *types.ValidatorSet, chain string, want types.BlockID, h uint64, c *types.Commit, total *big.Int, step int, genuine bool) {
	var err error
	pan := catch(func() { err = vset.VerifyCommit(chain, want, h, c) })
	obs := "x PANIC"
	if !pan {
		obs = "x " + commitErrClass(err)
	} else {
		o.Fail(step, "verifycommit-panic", "VerifyCommit panicked")
	}
	o.Count("op.verify." + obs[2:])
	o.Op(commitIn(want, h, c), obs)
	if pan {
		return
	}
	if genuine && err != nil && want.IsComplete() {
		o.Fail(step, "commit-roundtrip", "MakeCommit output rejected by VerifyCommit: "+err.Error())
	}
	if err == nil {
		// independent tally
		ok := len(c.Signatures) == vset.Size() && c.Height == h && want.Equal(c.BlockID)
		sum := new(big.Int)
		for i, cs := range c.Signatures {
			if cs.BlockIDFlag != types.BlockIDFlagCommit || i >= vset.Size() {
				continue
			}
			si := sigs[string(cs.Signature)]
			if si == nil || si.signer != addrID[vset.Validators[i].Address] || si.chain != chainID(chain) || si.ty != int64(kproto.PrecommitType) ||
				si.height != int64(h) || si.round != int64(c.Round) || !si.bid.Equal(want) || si.tm != tmID(cs.Timestamp) {
				continue
			}
			sum.Add(sum, big.NewInt(vset.Validators[i].VotingPower))
		}
		for i, cs := range c.Signatures {
			if cs.BlockIDFlag != types.BlockIDFlagAbsent && i < vset.Size() && !cs.ValidatorAddress.Equal(vset.Validators[i].Address) {
				o.Fail(step, "commit-address-forged", fmt.Sprintf("VerifyCommit accepted a commit whose slot %d names address #%d instead of the validator of that position (the block-time median weighs the slot by this address)", i, addrID[cs.ValidatorAddress]))
				break
			}
		}
		if !ok || new(big.Int).Mul(sum, big.NewInt(3)).Cmp(new(big.Int).Mul(total, big.NewInt(2))) <= 0 {
			o.Fail(step, "verifycommit-unsound", fmt.Sprintf("VerifyCommit accepted a commit whose valid for-block signers hold %s of %s", sum, total))
		}
	}
}

func mutateCommit(r *gen.Rand, c *types.Commit, maj types.BlockID, height uint64, pool []types.BlockID, n int, vset *types.ValidatorSet, keyOf func(int) int, chain string) (*types.Commit, types.BlockID, uint64) {
	mc := c.Copy()
	mc.Signatures = append([]types.CommitSig{}, c.Signatures...)
	want, h := maj, height
	switch r.Intn(13) {
	case 0: // drop one signature (absent)
		mc.Signatures[r.Intn(len(mc.Signatures))] = types.NewCommitSigAbsent()
	case 1: // drop until below quorum: all absent except one
		for i := range mc.Signatures {
			if i > 0 {
				mc.Signatures[i] = types.NewCommitSigAbsent()
			}
		}
	case 2: // wrong size
		if r.Bool() && len(mc.Signatures) > 1 {
			mc.Signatures = mc.Signatures[:len(mc.Signatures)-1]
		} else {
			mc.Signatures = append(mc.Signatures, types.NewCommitSigAbsent())
		}
	case 3: // wrong height asked
		h = height + 1
	case 4: // wrong commit height
		mc.Height = height + 1
	case 5: // wrong wanted id (other total)
		want = pool[3]
		if want.Equal(maj) {
			want = pool[1]
		}
	case 6: // commit for another id
		mc.BlockID = pool[3]
		if mc.BlockID.Equal(maj) {
			mc.BlockID = pool[1]
		}
		if r.Bool() {
			want = mc.BlockID
		}
	case 7: // swap two signatures
		if len(mc.Signatures) > 1 {
			i := r.Intn(len(mc.Signatures) - 1)
			mc.Signatures[i], mc.Signatures[i+1] = mc.Signatures[i+1], mc.Signatures[i]
		}
	case 8: // flag flips
		i := r.Intn(len(mc.Signatures))
		cs := mc.Signatures[i]
		cs.BlockIDFlag = types.BlockIDFlag(1 + r.Intn(4))
		mc.Signatures[i] = cs
	case 9: // round changed
		mc.Round = c.Round + 1
	case 11: // forged ValidatorAddress only (signature untouched): another member's address
		i := r.Intn(len(mc.Signatures))
		cs := mc.Signatures[i]
		cs.ValidatorAddress = vset.Validators[(i+1+r.Intn(len(mc.Signatures)))%len(mc.Signatures)].Address
		mc.Signatures[i] = cs
	case 12: // forged ValidatorAddress in every slot but one (rotate the addresses)
		keep := r.Intn(len(mc.Signatures))
		for i := range mc.Signatures {
			if i != keep && mc.Signatures[i].BlockIDFlag != types.BlockIDFlagAbsent {
				cs := mc.Signatures[i]
				cs.ValidatorAddress = vset.Validators[(i+1)%len(mc.Signatures)].Address
				mc.Signatures[i] = cs
			}
		}
	case 10: // a prevote-typed signature in place of a precommit, or nil-vote signature flagged as commit
		i := r.Intn(len(mc.Signatures))
		cs := mc.Signatures[i]
		v := &types.Vote{Type: kproto.PrevoteType, Height: mc.Height, Round: mc.Round, BlockID: mc.BlockID, Timestamp: time.Unix(1600000000, 0).UTC()}
		if r.Bool() {
			v.Type = kproto.PrecommitType
			v.BlockID = types.BlockID{}
		}
		cs.BlockIDFlag = types.BlockIDFlagCommit
		cs.ValidatorAddress = vset.Validators[i].Address
		cs.Timestamp = v.Timestamp
		cs.Signature = signVote(keyOf(i), chain, v)
		mc.Signatures[i] = cs
	}
	return mc, want, h
}
