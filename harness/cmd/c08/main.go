// C08 harness: drives the real kai/state.StateDB (journal, snapshots, Finalise, IntermediateRoot,
// Commit, Copy, re-open at a committed root, with and without a snapshot tree) with generated
// operation histories over a tiny address/slot universe, prints every getter after every
// operation for the model driver, and evaluates the property directly on the implementation:
//
//	revert-not-exact        dump taken at Snapshot() != dump after RevertToSnapshot(id)
//	copy-differs            dump of a fresh Copy() != dump of the original
//	copy-not-independent    a handle's dump changed although only OTHER handles were operated on
//	root-surviving          root after IntermediateRoot/Commit != root of a fresh StateDB (opened at
//	                        the lineage's base root) to which only the non-reverted operations
//	                        (and no reads) were applied
//	root-surviving-ripemd-touch   the same, explained by the inherited RIPEMD touch exception
//	readback-differs        persistent getters of a StateDB re-opened at the committed root differ
//	                        from the committing StateDB's own view / from what was written
//	root-content            equal roots with different persistent dumps, or vice versa
//	snap-differs            the same history on a database with a snapshot tree observes differently
//	                        (the two databases are driven in lockstep)
//	snap-layer-read         an account / storage slot read directly from a snapshot layer of the tree
//	                        (diff layers over the disk layer) differs from the account trie / storage trie
//	                        at the same root (opened on the database WITHOUT snapshots); includes storage
//	                        that dangles under an account the trie does not have
//	snap-verify             snapshot.Tree.Verify(root): the root (or an account's storage root) recomputed from the
//	                        layers' sorted iterators (diff layers' lists + the database under the disk layer) differs
//	snap-flatten-aliasing   KNOWN FINDING: slot-only divergence on a StateDB whose own layer object was flattened into a
//	                        diff parent (diffLayer.flatten shares the child's inner storage map); only inside famFlattenAliasing
//	create-account-balance  CreateAccount over an existing account did not carry its balance over
//	refund-panic            SubRefund panicked although gas <= refund, or did not although gas > refund
//	panic / db-error        unexpected panic, Commit error, memoised database error
package main

import (
	"fmt"
	"math/big"
	"os"
	"reflect"
	"runtime/pprof"
	"strings"
	"unsafe"

	"github.com/VictoriaMetrics/fastcache"

	"github.com/kardiachain/go-kardia/kai/kaidb/memorydb"
	"github.com/kardiachain/go-kardia/kai/state"
	"github.com/kardiachain/go-kardia/kai/state/snapshot"
	"github.com/kardiachain/go-kardia/lib/common"
	"github.com/kardiachain/go-kardia/lib/crypto"
	"github.com/kardiachain/go-kardia/lib/log"
	"github.com/kardiachain/go-kardia/lib/rlp"
	"github.com/kardiachain/go-kardia/types"

	"verif/harness/internal/gen"
	"verif/harness/internal/out"
)

const ripemdID = 3

var (
	codePool  = [][]byte{nil, {0x60, 0x00}, {0xfe}, {0x60, 0x01, 0x60, 0x02}}
	codeLabel = map[common.Hash]int{}
)

func addrOf(i int) common.Address { return common.BytesToAddress([]byte{byte(i)}) }
func hashOf(i int) common.Hash    { return common.BigToHash(big.NewInt(int64(i))) }
func txHashOf(i int) common.Hash {
	if i == 0 {
		return common.Hash{}
	}
	return common.BigToHash(big.NewInt(int64(0x7700 + i)))
}
func preHashOf(i int) common.Hash  { return common.BigToHash(big.NewInt(int64(0x5500 + i))) }
func wordStr(h common.Hash) string { return new(big.Int).SetBytes(h[:]).String() }

// op is one recorded operation (also the replay unit).
type op struct {
	h       int    // handle
	code    string // CA AB SB BA NO CO SS SU AR SR LG PI AA AS TS TX SN RV FI IR CM CP NW DU | KP (Cap) LR (layer read): snapshot tree only
	a, k    int
	v       int64
	dump    string // F | N | S.a.k
	touchRM bool   // an AddBalance(ripemd,0) executed while ripemd existed and was empty
	pre     string // KP, LR: result computed on the snapshot-tree database (these two do nothing on the plain one)
}

func (p op) line() string {
	var args string
	switch p.code {
	case "CA", "SU", "AA":
		args = fmt.Sprintf(" %d", p.a)
	case "AB", "SB", "BA", "NO", "CO":
		args = fmt.Sprintf(" %d %d", p.a, p.v)
	case "SS", "TS":
		args = fmt.Sprintf(" %d %d %d", p.a, p.k, p.v)
	case "AS":
		args = fmt.Sprintf(" %d %d", p.a, p.k)
	case "AR", "SR", "LG", "RV", "FI", "IR", "CM", "CP", "LR":
		args = fmt.Sprintf(" %d", p.v)
	case "PI", "TX", "NW", "KP":
		args = fmt.Sprintf(" %d %d", p.a, p.v)
	}
	return fmt.Sprintf("%d %s%s %s", p.h, p.code, args, p.dump)
}

// env is one database with its StateDB handles.
type env struct {
	mdb                     *memorydb.Database
	sdb                     state.Database
	snaps                   *snapshot.Tree
	hs                      map[int]*state.StateDB
	labels                  map[common.Hash]int
	byLab                   map[int]common.Hash
	ua, uk                  []int
	withLayer, withoutLayer int // re-opens in snapshot mode that found / did not find a snapshot layer for the root
	// shape of the snapshot tree as far as the harness created it (snapshot mode only): Cap is only
	// called while the diff layers form a single chain and the capped root is its tip — flattening
	// underneath a sibling branch is outside the tree's contract (geth: "committed into the same base
	// from two children") and here blocks forever on the finished generator's abort channel
	attach   map[int]common.Hash // handle -> root of the layer its StateDB is attached to
	chainTip common.Hash
	branched bool
	caps     int
	// result of the last CM: the committed root, and whether Cap(root, n) may be called on it
	lastRoot   common.Hash
	lastCapOK  bool
	roots      []common.Hash // distinct committed roots, in order
	rootKnown  map[common.Hash]bool
	staleReads int
	// linear-chain bookkeeping (valid while !branched): roots of the diff layers from the one above the disk
	// layer up to the tip; whether the disk layer still has its generator's abort channel (the first
	// flattening below `layers` then goes straight to disk, later ones stay in an in-memory accumulator);
	// the roots whose ORIGINAL layer objects had their inner maps adopted by the live accumulator
	// (diffLayer.flatten shares them: see famFlattenAliasing); roots that ever got a layer
	chain      []common.Hash
	genAlive   bool
	members    []common.Hash
	layerRoots map[common.Hash]bool
	attachSeq  map[int]int         // handle -> sequence number of its attachment
	proneAt    map[common.Hash]int // root -> sequence number at which its original layer object became subject to that sharing
	seq        int
}

// capPlan: what snaps.Cap(tip, n) does to the linear chain: the roots merged into an accumulator (in order), the
// roots whose original objects become exposed to later merges, and the chain afterwards.
func (e *env) capPlan(n int) (merged, prone []common.Hash, flush bool, after []common.Hash) {
	k := len(e.chain) - n // layers below the kept ones
	if n == 0 {
		k = len(e.chain)
	}
	if k <= 0 {
		return nil, nil, false, e.chain
	}
	below := e.chain[:k]
	merged = below[1:]
	if len(merged) > 0 {
		prone = append(append([]common.Hash{}, e.members...), merged[:len(merged)-1]...)
	}
	flush = n == 0 || e.genAlive
	after = append([]common.Hash{}, e.chain[k:]...)
	if !flush {
		after = append([]common.Hash{below[k-1]}, after...)
	}
	return
}

// capSafe: Cap(tip, n) would not expose a layer object that an open StateDB is still attached to.
func (e *env) capSafe(n int) bool {
	_, prone, _, _ := e.capPlan(n)
	for _, r := range prone {
		for _, at := range e.attach {
			if at == r {
				return false
			}
		}
	}
	return true
}

func (e *env) capApply(root common.Hash, n int) {
	if e.branched {
		if n == 0 {
			// Cap(root, 0) replaces the whole tree by one disk layer: every branch is gone
			e.chain, e.members, e.genAlive, e.branched = nil, nil, false, false
			e.chainTip = root
			e.layerRoots = map[common.Hash]bool{root: true}
		}
		return
	}
	k := len(e.chain) - n
	if n == 0 {
		k = len(e.chain)
	}
	if k <= 0 {
		return // the tip is the disk layer, or the chain is too shallow: Cap changes nothing
	}
	merged, prone, flush, after := e.capPlan(n)
	e.seq++
	for _, r := range prone {
		e.proneAt[r] = e.seq
	}
	if flush {
		e.members, e.genAlive = nil, false
	} else {
		e.members = append(e.members, merged...)
	}
	e.chain = after
}

// prone: the StateDB handle is attached to a layer object whose maps were shared with an accumulator after it attached.
func (e *env) prone(h int) bool {
	at, ok := e.attach[h]
	if !ok {
		return false
	}
	t, ok := e.proneAt[at]
	return ok && t > e.attachSeq[h]
}

func newEnv(withSnaps bool, ua, uk []int) *env {
	e := &env{mdb: memorydb.New(), hs: map[int]*state.StateDB{}, labels: map[common.Hash]int{}, byLab: map[int]common.Hash{}, ua: ua, uk: uk, rootKnown: map[common.Hash]bool{}}
	e.sdb = state.NewDatabase(e.mdb)
	e.label(types.EmptyRootHash)
	if withSnaps {
		e.snaps, _ = snapshot.New(snapshot.Config{CacheSize: 1, NoBuild: false, AsyncBuild: false}, e.mdb, e.sdb.TrieDB(), types.EmptyRootHash)
	}
	// NB: the empty-trie root, not the zero hash: the snapshot tree has no layer for common.Hash{}
	// and a StateDB opened on it would silently run without snapshots for its whole life
	st, err := state.New(types.EmptyRootHash, e.sdb, e.snaps)
	if err != nil {
		panic(err)
	}
	e.hs[0] = st
	e.attach = map[int]common.Hash{0: types.EmptyRootHash}
	e.chainTip = types.EmptyRootHash
	e.genAlive = true
	e.layerRoots = map[common.Hash]bool{types.EmptyRootHash: true}
	e.attachSeq = map[int]int{0: 0}
	e.proneAt = map[common.Hash]int{}
	return e
}

func (e *env) label(r common.Hash) int {
	if r == (common.Hash{}) {
		r = types.EmptyRootHash
	}
	if l, ok := e.labels[r]; ok {
		return l
	}
	l := len(e.labels)
	e.labels[r] = l
	e.byLab[l] = r
	return l
}

func b01(b bool) string {
	if b {
		return "1"
	}
	return "0"
}

func codeLab(st *state.StateDB, a common.Address) (string, string) {
	h := st.GetCodeHash(a)
	hs := "-"
	if h != (common.Hash{}) {
		if l, ok := codeLabel[h]; ok {
			hs = fmt.Sprint(l)
		} else {
			hs = "?"
		}
	}
	c := st.GetCode(a)
	cs := "?"
	if l, ok := codeLabel[crypto.Keccak256Hash(c)]; ok {
		cs = fmt.Sprint(l)
	}
	if st.GetCodeSize(a) != len(c) {
		cs = "?size"
	}
	return hs, cs
}

// acct mirrors the driver's read order: Exist, Empty, Balance, Nonce, CodeHash, Code, HasSuicided.
func acct(st *state.StateDB, ai int) string {
	a := addrOf(ai)
	e, m := st.Exist(a), st.Empty(a)
	b, n := st.GetBalance(a), st.GetNonce(a)
	hs, cs := codeLab(st, a)
	su := st.HasSuicided(a)
	return fmt.Sprintf("A%d:%s%s,%s,%d,%s,%s,%s", ai, b01(e), b01(m), b.String(), n, hs, cs, b01(su))
}

func slotv(st *state.StateDB, ai, ki int) string {
	x := st.GetState(addrOf(ai), hashOf(ki))
	y := st.GetCommittedState(addrOf(ai), hashOf(ki))
	return wordStr(x) + "/" + wordStr(y)
}

// persistent part of one account (what a re-opened state must reproduce)
func persistent(st *state.StateDB, ai int, uk []int) (exists bool, s string) {
	a := addrOf(ai)
	hs, cs := codeLab(st, a)
	parts := []string{b01(st.Exist(a)), b01(st.Empty(a)), st.GetBalance(a).String(), fmt.Sprint(st.GetNonce(a)), hs, cs}
	for _, k := range uk {
		parts = append(parts, wordStr(st.GetState(a, hashOf(k))))
	}
	return st.Exist(a), strings.Join(parts, ",")
}

func (e *env) full(st *state.StateDB) string {
	var accts []string
	for _, ai := range e.ua {
		a := addrOf(ai)
		hd := acct(st, ai)
		var sl, tr []string
		for _, k := range e.uk {
			sl = append(sl, slotv(st, ai, k))
		}
		al := b01(st.AddressInAccessList(a))
		for _, k := range e.uk {
			ap, sp := st.SlotInAccessList(a, hashOf(k))
			al += b01(ap) + b01(sp)
		}
		for _, k := range e.uk {
			tr = append(tr, wordStr(st.GetTransientState(a, hashOf(k))))
		}
		accts = append(accts, fmt.Sprintf("%s,%s,%s,%s", hd, strings.Join(sl, "."), al, strings.Join(tr, ".")))
	}
	var lg []string
	for t := 0; t < 3; t++ {
		var items []string
		for _, l := range st.GetLogs(txHashOf(t), 0, common.Hash{}) {
			p := 0
			if len(l.Data) > 0 {
				p = int(l.Data[0])
			}
			if l.TxHash != txHashOf(t) {
				p = -1
			}
			items = append(items, fmt.Sprintf("%d:%d:%d", p, l.TxIndex, l.Index))
		}
		lg = append(lg, fmt.Sprintf("L%d=[%s]", t, strings.Join(items, ";")))
	}
	var pi []string
	pm := st.Preimages()
	for t := 0; t < 3; t++ {
		if v, ok := pm[preHashOf(t)]; ok && len(v) == 1 {
			pi = append(pi, fmt.Sprint(int(v[0])))
		} else if ok {
			pi = append(pi, "?")
		} else {
			pi = append(pi, "-")
		}
	}
	return fmt.Sprintf("%s R%d %s P%s", strings.Join(accts, " "), st.GetRefund(), strings.Join(lg, " "), strings.Join(pi, "."))
}

func (e *env) dump(st *state.StateDB, spec string) (res string) {
	defer func() {
		if r := recover(); r != nil {
			res = "PANIC-IN-GETTER"
		}
	}()
	switch {
	case spec == "F":
		return e.full(st)
	case spec == "N":
		return ""
	}
	var a, k int
	p := strings.Split(spec, ".")
	s := ""
	if p[1] != "-" {
		fmt.Sscan(p[1], &a)
		s = acct(st, a)
		if p[2] != "-" {
			fmt.Sscan(p[2], &k)
			s += "," + slotv(st, a, k)
		}
		s += " "
	}
	return s + fmt.Sprintf("R%d", st.GetRefund())
}

// exec applies one operation to the real StateDB and returns the result token.
func (e *env) exec(p op) (res string, panicked bool) {
	defer func() {
		if r := recover(); r != nil {
			res, panicked = "PANIC", true
		}
	}()
	st := e.hs[p.h]
	a := addrOf(p.a)
	res = "-"
	switch p.code {
	case "CA":
		st.CreateAccount(a)
	case "AB":
		st.AddBalance(a, big.NewInt(p.v))
	case "SB":
		st.SubBalance(a, big.NewInt(p.v))
	case "BA":
		st.SetBalance(a, big.NewInt(p.v))
	case "NO":
		st.SetNonce(a, uint64(p.v))
	case "CO":
		var c []byte
		if p.v != 0 {
			c = append([]byte{}, codePool[p.v]...)
		}
		st.SetCode(a, c)
	case "SS":
		st.SetState(a, hashOf(p.k), hashOf(int(p.v)))
	case "SU":
		res = "b" + b01(st.Suicide(a))
	case "AR":
		st.AddRefund(uint64(p.v))
	case "SR":
		st.SubRefund(uint64(p.v))
	case "LG":
		st.AddLog(&types.Log{Address: addrOf(1), Data: []byte{byte(p.v)}})
	case "PI":
		st.AddPreimage(preHashOf(p.a), []byte{byte(p.v)})
	case "AA":
		st.AddAddressToAccessList(a)
	case "AS":
		st.AddSlotToAccessList(a, hashOf(p.k))
	case "TS":
		st.SetTransientState(a, hashOf(p.k), hashOf(int(p.v)))
	case "TX":
		st.Prepare(txHashOf(p.a), common.Hash{}, int(p.v))
	case "SN":
		res = fmt.Sprintf("i%d", st.Snapshot())
	case "RV":
		st.RevertToSnapshot(int(p.v))
	case "FI":
		st.Finalise(p.v == 1)
	case "IR":
		res = fmt.Sprintf("r%d", e.label(st.IntermediateRoot(p.v == 1)))
	case "CM":
		root, err := st.Commit(p.v == 1)
		if err != nil {
			res = "ERR"
		} else {
			res = fmt.Sprintf("r%d", e.label(root))
			if !e.rootKnown[root] {
				e.rootKnown[root] = true
				e.roots = append(e.roots, root)
			}
			e.lastRoot, e.lastCapOK = root, false
			if e.snaps != nil {
				at, attached := e.attach[p.h]
				delete(e.attach, p.h) // Commit drops the StateDB's snapshot reference
				if attached && root != at && e.snaps.Snapshot(root) != nil {
					if e.layerRoots[root] {
						// a root that already had a layer: the tree is keyed by root, its bookkeeping (children by
						// root) is only meaningful for pairwise distinct roots -- no Cap any more in this case
						e.branched = true
					}
					e.layerRoots[root] = true
					if at == e.chainTip && !e.branched {
						e.chainTip = root
						e.chain = append(e.chain, root)
					} else {
						e.branched = true
					}
				}
				e.lastCapOK = !e.branched && root == e.chainTip && attached
			}
		}
	case "KP":
		// snaps.Cap(root, layers): flatten everything below the top `layers` diff layers (0: into the disk layer)
		if e.snaps != nil {
			if err := e.snaps.Cap(e.byLab[p.a], int(p.v)); err == nil {
				e.caps++
			} else {
				return
			}
			e.capApply(e.byLab[p.a], int(p.v))
		}
	case "LR":
	case "CP":
		e.hs[int(p.v)] = st.Copy()
		if at, ok := e.attach[p.h]; ok && e.snaps != nil {
			e.attach[int(p.v)] = at
			e.attachSeq[int(p.v)] = e.attachSeq[p.h]
		}
	case "NW":
		n, err := state.New(e.byLab[int(p.v)], e.sdb, e.snaps)
		if e.snaps != nil {
			if e.snaps.Snapshot(e.byLab[int(p.v)]) != nil {
				e.attach[p.a] = e.byLab[int(p.v)]
				e.seq++
				e.attachSeq[p.a] = e.seq
				e.withLayer++
			} else {
				e.withoutLayer++
			}
		}
		if err != nil {
			res = "ERR"
		} else {
			e.hs[p.a] = n
		}
	case "DU":
	}
	return
}

// lineage: what a fresh StateDB needs to reproduce a handle's content
type lineage struct {
	ok         bool // replayable
	tainted    bool // a classified RIPEMD divergence happened
	base       common.Hash
	ops        []op  // surviving operations (reads excluded)
	marks      []int // len(ops) at each valid snapshot (parallel to valid)
	valid      []int // valid revision ids
	clean      bool  // journal certainly empty
	rmLeak     bool  // a reverted segment contained a RIPEMD touch since the last journal clear
	rmDiverged bool  // a Finalise/IntermediateRoot/Commit ran while the leak was pending
	snapDump   map[int]string
}

func (l *lineage) clone() *lineage {
	c := &lineage{ok: l.ok && l.clean, tainted: l.tainted, rmDiverged: l.rmDiverged, base: l.base, clean: true, snapDump: map[int]string{}}
	c.ops = append([]op{}, l.ops...)
	return c
}

func main() {
	out.WriteFacts(func() string { return "" })
	if pf := os.Getenv("C08PROF"); pf != "" {
		f, _ := os.Create(pf)
		pprof.StartCPUProfile(f)
		defer pprof.StopCPUProfile()
	}
	log.Root().SetHandler(log.DiscardHandler())
	for i, c := range codePool {
		codeLabel[crypto.Keccak256Hash(c)] = i
	}
	o := out.Open()
	o.Rule = "a case is one history over StateDB handles on one database (setters, Snapshot/RevertToSnapshot nested, Finalise, IntermediateRoot, Commit, Copy, re-open at a committed root), run in lockstep on a second database with a snapshot tree (Cap with depth 0..3, direct reads of every layer, Tree.Verify), 3 addresses (always 0x03) x 3 slots; directed families: destruct+re-create over the disk layer, contract lifecycle over blocks, copies with pending snapshot data, stale layers under open states, sibling branches, >128 layers, RIPEMD reverted touch, flatten aliasing (known); non-trivial = contains a revert, a copy, or a commit followed by a re-open; distinct by the op-kind string and result string"
	root := gen.New(*out.Seed)
	for c := 0; c < *out.N; c++ {
		if !out.Want(c) {
			continue
		}
		runCase(o, root.Fork(uint64(c)), c)
	}
	o.Close()
}

type caseRun struct {
	o           *out.Out
	r           *gen.Rand
	e           *env
	lin         map[int]*lineage
	ops         []op           // everything executed, in order (for the snapshot-tree replay)
	lines       []string       // observed lines
	last        map[int]string // last full dump per handle
	touched     map[int]bool   // handle operated on since its last full dump
	step        int
	kinds       strings.Builder
	results     strings.Builder
	nextH       int
	commits     []int // labels of committed roots
	sparse      bool
	prevTouched bool // the handle had been operated on since its last full dump when the current op started
	// the same history on a database WITH a snapshot tree, driven in lockstep
	e2         *env
	snapBroken bool                      // a snap-differs was reported, or the case is done with it: the second database is abandoned for the rest of the case
	aliasing   bool                      // inside famFlattenAliasing
	views      map[common.Hash]*rootView // what the tries say at a committed root (database without snapshots)
}

// rootView: accounts and slots of the universe read from the account trie / storage tries at a root.
type rootView struct {
	acc   []*types.StateAccount
	slots [][]common.Hash
}

func (cr *caseRun) trieView(root common.Hash) *rootView {
	if v, ok := cr.views[root]; ok {
		return v
	}
	e := cr.e
	v := &rootView{}
	tr, err := e.sdb.OpenTrie(root)
	if err != nil {
		cr.o.Fail(cr.step, "db-error", "cannot open the account trie at a committed root")
		cr.views[root] = nil
		return nil
	}
	for _, ai := range e.ua {
		a := addrOf(ai)
		acc, err := tr.GetAccount(a)
		if err != nil {
			cr.o.Fail(cr.step, "db-error", "account trie read failed at a committed root")
		}
		sl := make([]common.Hash, len(e.uk))
		if acc != nil {
			str, err := e.sdb.OpenStorageTrie(root, crypto.Keccak256Hash(a[:]), acc.Root)
			if err != nil {
				cr.o.Fail(cr.step, "db-error", "cannot open a storage trie at a committed root")
			} else {
				for j, k := range e.uk {
					val, err := str.GetStorage(a, hashOf(k).Bytes())
					if err != nil {
						cr.o.Fail(cr.step, "db-error", "storage trie read failed at a committed root")
					}
					sl[j] = common.BytesToHash(val)
				}
			}
		}
		v.acc = append(v.acc, acc)
		v.slots = append(v.slots, sl)
	}
	cr.views[root] = v
	return v
}

// layerRead reads every account and slot of the universe directly from the snapshot layer the tree
// keeps for root (diffLayer.Account/Storage through the bloom filter and the layer walk, or the disk
// layer), and compares with the tries at the same root. ok=false: no layer, or a read hit a stale layer.
func (cr *caseRun) layerRead(root common.Hash) (line string, ok bool) {
	e2 := cr.e2
	layer := e2.snaps.Snapshot(root)
	if layer == nil {
		return "", false
	}
	want := cr.trieView(root)
	if want == nil {
		return "", false
	}
	var parts []string
	var bad []string
	for i, ai := range e2.ua {
		a := addrOf(ai)
		ah := crypto.Keccak256Hash(a[:])
		acc, err := layer.Account(ah)
		if err != nil {
			e2.staleReads++
			return "", false
		}
		var sl []string
		for j, k := range e2.uk {
			enc, err := layer.Storage(ah, crypto.Keccak256Hash(hashOf(k).Bytes()))
			if err != nil {
				e2.staleReads++
				return "", false
			}
			var val common.Hash
			if len(enc) > 0 {
				_, content, _, err := rlp.Split(enc)
				if err != nil {
					bad = append(bad, fmt.Sprintf("account %d slot %d: undecodable snapshot value %x", ai, k, enc))
				}
				val.SetBytes(content)
			}
			sl = append(sl, wordStr(val))
			if val != want.slots[i][j] {
				bad = append(bad, fmt.Sprintf("account %d slot %d: snapshot layer %s, storage trie %s", ai, k, wordStr(val), wordStr(want.slots[i][j])))
			}
		}
		w := want.acc[i]
		switch {
		case acc == nil && w == nil:
			parts = append(parts, fmt.Sprintf("A%d:-;%s", ai, strings.Join(sl, ".")))
		case acc == nil || w == nil:
			bad = append(bad, fmt.Sprintf("account %d: snapshot layer has it = %v, account trie has it = %v", ai, acc != nil, w != nil))
			parts = append(parts, fmt.Sprintf("A%d:?;%s", ai, strings.Join(sl, ".")))
		default:
			ch := common.BytesToHash(acc.CodeHash)
			if len(acc.CodeHash) == 0 {
				ch = types.EmptyCodeHash
			}
			rt := common.BytesToHash(acc.Root)
			if len(acc.Root) == 0 {
				rt = types.EmptyRootHash
			}
			cl := "?"
			if l, ok := codeLabel[ch]; ok {
				cl = fmt.Sprint(l)
			}
			if acc.Nonce != w.Nonce || acc.Balance.Cmp(w.Balance) != 0 || ch != common.BytesToHash(w.CodeHash) || rt != w.Root {
				bad = append(bad, fmt.Sprintf("account %d: snapshot layer (nonce %d balance %s code %s root %s) != account trie (nonce %d balance %s code %s root %s)",
					ai, acc.Nonce, acc.Balance, ch.Hex()[:10], rt.Hex()[:10], w.Nonce, w.Balance, common.BytesToHash(w.CodeHash).Hex()[:10], w.Root.Hex()[:10]))
			}
			parts = append(parts, fmt.Sprintf("A%d:%d,%s,%s;%s", ai, acc.Nonce, acc.Balance, cl, strings.Join(sl, ".")))
		}
	}
	cr.o.Count("oracle.snap-layer-read-checked")
	if len(bad) > 0 {
		cr.o.Fail(cr.step, "snap-layer-read", fmt.Sprintf("root %s: %s", root.Hex()[:10], strings.Join(bad, "; ")))
	}
	return strings.Join(parts, " "), true
}

// layerReads emits an LR operation for root and for the `recent` most recently committed roots, wherever the tree
// still has a readable layer.
func (cr *caseRun) layerReads(root common.Hash, recent int) {
	if cr.e2 == nil || cr.snapBroken {
		return
	}
	rs := cr.e2.roots
	if len(rs) > recent {
		rs = rs[len(rs)-recent:]
	}
	seen := false
	for _, r := range rs {
		if r == root {
			seen = true
		}
	}
	if !seen {
		rs = append(append([]common.Hash{}, rs...), root)
	}
	for _, r := range rs {
		if cr.snapBroken {
			return
		}
		if line, ok := cr.layerRead(r); ok {
			cr.do(op{h: 0, code: "LR", v: int64(cr.e2.label(r)), dump: "N", pre: line})
		}
	}
}

// verifyLayers: Tree.Verify re-computes the state root from the layers' sorted iterators.
func (cr *caseRun) verifyLayers(root common.Hash) {
	if cr.e2 == nil || cr.snapBroken || cr.e2.snaps.Snapshot(root) == nil {
		return
	}
	err := cr.e2.snaps.Verify(root)
	switch {
	case err == nil:
		cr.o.Count("oracle.snap-verify-checked")
	case strings.Contains(err.Error(), "stale") || strings.Contains(err.Error(), "not constructed") || strings.Contains(err.Error(), "missing") || strings.Contains(err.Error(), "unknown"):
		cr.o.Count("oracle.snap-verify-skipped")
	default: // "state root hash mismatch", "invalid subroot" (an account's storage root), ...
		cr.o.Fail(cr.step, "snap-verify", fmt.Sprintf("root %s: %v", root.Hex()[:10], err))
	}
}

// commit = Commit on handle h; on the snapshot-tree database optionally followed by Cap (capd-1 layers
// kept) when the tree's shape allows it, and by direct reads of the layers.
func (cr *caseRun) commit(h int, de bool, dump string, capd int) string {
	return cr.commitF(h, de, dump, capd, false)
}

// commitF: force = Cap even though the tree has branched (the caller knows the shape: see famSiblingCap).
func (cr *caseRun) commitF(h int, de bool, dump string, capd int, force bool) string {
	v := int64(0)
	if de {
		v = 1
	}
	res := cr.do(op{h: h, code: "CM", v: v, dump: dump})
	if cr.e2 == nil || cr.snapBroken || !strings.HasPrefix(res, "r") {
		return res
	}
	e2 := cr.e2
	root := e2.lastRoot
	cr.layerReads(root, 0)
	if capd > 0 && (e2.lastCapOK || force) {
		// (not while an open StateDB is attached to a layer whose maps flatten would share: known finding, exhibited by famFlattenAliasing only)
		if cr.aliasing || force || e2.capSafe(capd-1) {
			cr.do(op{h: h, code: "KP", a: e2.label(root), v: int64(capd - 1), dump: "N", pre: "-"})
			cr.layerReads(root, 5)
			cr.verifyLayers(root) // the disk layer's own iterators see what Cap wrote to the database (not only its cache)
		} else {
			cr.o.Count("snap.cap-skipped-open-state-on-mid-layer")
		}
	}
	if cr.r.Chance(1, 6) {
		cr.verifyLayers(root)
	}
	return res
}

// do executes p on the main environment, records it, and runs the per-op oracles.
func (cr *caseRun) do(p op) string {
	e := cr.e
	if e.hs[p.h] == nil {
		// a handle whose creation failed (reported as db-error when it happened): nothing can be done on it
		cr.o.Count("op.skipped-nil-handle")
		return ""
	}
	st := e.hs[p.h]
	l := cr.lin[p.h]
	// RIPEMD touch bookkeeping (before the op: existence/emptiness at call time)
	if p.code == "AB" && p.a == ripemdID && p.v == 0 && st.Exist(addrOf(ripemdID)) && st.Empty(addrOf(ripemdID)) {
		p.touchRM = true
	}
	refundBefore := st.GetRefund()
	res, pan := e.exec(p)
	if p.code == "SR" && pan != (uint64(p.v) > refundBefore) {
		// documented: SubRefund panics iff the counter would go below zero
		cr.o.Fail(cr.step, "refund-panic", fmt.Sprintf("SubRefund(%d) with refund counter %d: panicked=%v", p.v, refundBefore, pan))
	}
	if pan && !(p.code == "SR" || p.code == "RV") {
		cr.o.Fail(cr.step, "panic", "unexpected panic in "+p.code)
	}
	if res == "ERR" {
		cr.o.Fail(cr.step, "db-error", "error returned by "+p.code)
	}
	d := ""
	target := p.h
	if p.dump != "N" {
		d = e.dump(e.hs[target], p.dump)
	}
	if d == "PANIC-IN-GETTER" {
		cr.o.Fail(cr.step, "panic", "a getter panicked after "+p.code)
	}
	if p.code == "KP" || p.code == "LR" {
		res = p.pre
	}
	line := res + "|" + d
	cr.o.Op(p.line(), line)
	cr.o.Count("op." + p.code)
	// the same operation on the database with the snapshot tree
	if cr.e2 != nil && !cr.snapBroken {
		res2, _ := cr.e2.exec(p)
		d2 := ""
		if p.dump != "N" {
			d2 = cr.e2.dump(cr.e2.hs[p.h], p.dump)
		}
		if p.code == "KP" || p.code == "LR" {
			res2 = p.pre
		}
		if line2 := res2 + "|" + d2; line2 != line {
			class := "snap-differs"
			if cr.aliasing && cr.e2.prone(p.h) && slotOnlyDiff(line, line2) {
				class = "snap-flatten-aliasing"
			}
			cr.o.Fail(cr.step, class, fmt.Sprintf("op %q: without snapshot tree [%s], with snapshot tree [%s]", p.line(), line, line2))
			cr.snapBroken = true
		}
	}
	cr.kinds.WriteString(p.code[:1] + strings.ToLower(p.code[1:2]))
	cr.ops = append(cr.ops, p)
	cr.lines = append(cr.lines, line)
	// --- lineage + oracles
	cr.prevTouched = cr.touched[p.h]
	mut := true
	switch p.code {
	case "DU", "CP", "NW", "KP", "LR":
		mut = false
	}
	if mut {
		cr.touched[p.h] = true
	}
	switch p.code {
	case "SN":
		var id int
		fmt.Sscanf(res, "i%d", &id)
		l.valid = append(l.valid, id)
		l.marks = append(l.marks, len(l.ops))
		l.ops = append(l.ops, p)
		if p.dump == "F" {
			l.snapDump[id] = d
		}
	case "RV":
		if !pan {
			for i, id := range l.valid {
				if id == int(p.v) {
					for _, q := range l.ops[l.marks[i]:] {
						if q.touchRM {
							l.rmLeak = true
						}
					}
					l.ops = l.ops[:l.marks[i]]
					l.valid, l.marks = l.valid[:i], l.marks[:i]
					break
				}
			}
			l.clean = false
			if want, ok := l.snapDump[int(p.v)]; ok && p.dump == "F" {
				if want != d {
					cr.o.Fail(cr.step, "revert-not-exact", fmt.Sprintf("dump at Snapshot()=%d [%s] != dump after RevertToSnapshot [%s]", p.v, want, d))
				}
				cr.o.Count("oracle.revert-checked")
			}
			for id := range l.snapDump {
				if id >= int(p.v) {
					delete(l.snapDump, id)
				}
			}
		}
	case "CA":
		// CreateAccount over an existing account carries its balance over (prev is the dump taken immediately before)
		if prev, ok := cr.last[p.h]; ok && !cr.prevTouched && p.dump == "F" && !pan {
			eb, bb := existsBalance(prev, p.a)
			_, ba := existsBalance(d, p.a)
			if eb && bb != ba {
				cr.o.Fail(cr.step, "create-account-balance", fmt.Sprintf("account %d had balance %s before CreateAccount and %s after", p.a, bb, ba))
			}
			cr.o.Count("oracle.create-balance-checked")
		}
		l.ops = append(l.ops, p)
		l.clean = false
	case "FI", "IR", "CM":
		if prev, ok := cr.last[p.h]; ok && !cr.prevTouched && p.dump == "F" && l.ok && !pan {
			// prev is the dump taken immediately before this operation
			bs, as := suicidedExists(prev), suicidedExists(d)
			for ai, b := range bs {
				if b[1] && as[ai][0] {
					cr.o.Fail(cr.step, "suicided-survives", fmt.Sprintf("account %d was self-destructed before %s but still exists afterwards", ai, p.code))
				}
			}
			cr.o.Count("oracle.suicide-finalise-checked")
		}
		l.ops = append(l.ops, p)
		l.valid, l.marks = nil, nil
		l.snapDump = map[int]string{}
		l.clean = true
		if p.code != "FI" && res != "ERR" && !pan {
			var lab int
			fmt.Sscanf(res, "r%d", &lab)
			cr.checkSurviving(p, l, lab)
			if p.code == "CM" {
				cr.commits = append(cr.commits, lab)
			}
		}
		if l.rmLeak {
			l.rmDiverged = true // the leaked RIPEMD dirty mark has now been consumed by a Finalise
		}
		l.rmLeak = false
	case "DU", "CP", "NW", "KP", "LR":
	default:
		l.ops = append(l.ops, p)
		l.clean = false
	}
	if p.dump == "F" {
		if prev, ok := cr.last[target]; ok && !cr.touched[target] && prev != d {
			cr.o.Fail(cr.step, "copy-not-independent", fmt.Sprintf("handle %d was not operated on but its dump changed: [%s] -> [%s]", target, prev, d))
		}
		cr.last[target] = d
		cr.touched[target] = false
	}
	cr.step++
	return res
}

// checkSurviving: root of handle after IR/Commit == root of a fresh StateDB given only the surviving ops.
func (cr *caseRun) checkSurviving(p op, l *lineage, lab int) {
	if !l.ok || l.tainted {
		cr.o.Count("oracle.surviving-skipped")
		return
	}
	e := cr.e
	fresh, err := state.New(l.base, e.sdb, nil)
	if err != nil {
		cr.o.Fail(cr.step, "db-error", "cannot open lineage base root")
		return
	}
	fe := &env{sdb: e.sdb, hs: map[int]*state.StateDB{0: fresh}, labels: map[common.Hash]int{}, byLab: map[int]common.Hash{}}
	var got common.Hash
	pan := false
	for i, q := range l.ops {
		q.h = 0
		if q.code == "SN" {
			continue
		}
		last := i == len(l.ops)-1
		if q.code == "CM" || q.code == "IR" {
			func() {
				defer func() {
					if r := recover(); r != nil {
						pan = true
					}
				}()
				if q.code == "CM" {
					var err error
					if got, err = fresh.Commit(q.v == 1); err != nil {
						pan = true
					}
				} else {
					got = fresh.IntermediateRoot(q.v == 1)
				}
			}()
			_ = last
			continue
		}
		if _, pn := fe.exec(q); pn && q.code != "SR" {
			pan = true
		}
	}
	if pan {
		cr.o.Fail(cr.step, "panic", "panic while replaying surviving operations on a fresh StateDB")
		return
	}
	cr.o.Count("oracle.surviving-checked")
	want := e.byLab[lab]
	if got == want {
		return
	}
	// classify: which accounts differ between the two contents
	hst := e.hs[p.h].Copy()
	var diff []int
	for _, ai := range e.ua {
		_, x := persistent(hst, ai, e.uk)
		_, y := persistent(fresh, ai, e.uk)
		if x != y {
			diff = append(diff, ai)
		}
	}
	detail := fmt.Sprintf("handle %d root %s != fresh replay root %s; differing accounts %v", p.h, want.Hex()[:10], got.Hex()[:10], diff)
	if (l.rmLeak || l.rmDiverged) && len(diff) == 1 && diff[0] == ripemdID {
		cr.o.Fail(cr.step, "root-surviving-ripemd-touch", detail)
		l.tainted = true
		cr.o.Count("oracle.ripemd-exception")
		return
	}
	cr.o.Fail(cr.step, "root-surviving", detail)
	l.tainted = true
}

func runCase(o *out.Out, r *gen.Rand, c int) {
	// universe: ripemd + two of {1,2,4,5}; three of the slots {0,1,2,3}
	pa := r.Perm(4)
	cand := []int{1, 2, 4, 5}
	ua := []int{ripemdID, cand[pa[0]], cand[pa[1]]}
	if r.Bool() {
		ua[0], ua[1] = ua[1], ua[0]
	}
	pk := r.Perm(4)
	uk := []int{pk[0], pk[1], pk[2]}
	cr := &caseRun{o: o, r: r, e: newEnv(false, ua, uk), lin: map[int]*lineage{}, last: map[int]string{}, touched: map[int]bool{}, nextH: 1}
	cr.e2 = newEnv(true, ua, uk)
	cr.views = map[common.Hash]*rootView{}
	cr.lin[0] = &lineage{ok: true, base: types.EmptyRootHash, clean: true, snapDump: map[int]string{}}
	cr.sparse = r.Chance(1, 2)
	o.Case(c, fmt.Sprintf("CASE %d A %d %d %d K %d %d %d", c, ua[0], ua[1], ua[2], uk[0], uk[1], uk[2]))
	o.Count(fmt.Sprintf("mode.sparse%s", b01(cr.sparse)))
	func() {
		// a panic that escapes the per-operation recover (e.g. in an oracle reading a broken state) ends the case, not the run
		defer func() {
			if x := recover(); x != nil {
				o.Fail(cr.step, "panic", fmt.Sprintf("panic outside an operation: %v", x))
			}
		}()
		cr.generate()
	}()
	e2 := cr.e2
	if !cr.snapBroken {
		o.Count("oracle.snap-lockstep-complete")
	}
	o.Dist["snap.reopen-with-layer"] += e2.withLayer
	o.Dist["snap.reopen-without-layer"] += e2.withoutLayer
	o.Dist["snap.caps"] += e2.caps
	o.Dist["snap.layer-read-stale"] += e2.staleReads
	releaseSnapCache(e2.snaps)
	for _, st := range cr.e.hs {
		if st.Error() != nil {
			o.Fail(cr.step, "db-error", "memoised database error: "+st.Error().Error())
		}
	}
	k := cr.kinds.String()
	if strings.Contains(k, "Rv") || strings.Contains(k, "Cp") || strings.Contains(k, "Nw") {
		o.Mark(k + "|" + cr.results.String())
	}
}

// releaseSnapCache hands the chunks of the tree's clean cache (fastcache: at least 32 MB of 64 KB chunks, obtained with
// mmap and never returned by the garbage collector) back to fastcache's free list when a case is over. Purely a
// resource matter of the harness (one snapshot tree per case, thousands of cases per process): the tree is not used afterwards.
func releaseSnapCache(t *snapshot.Tree) {
	defer func() { recover() }()
	v := reflect.ValueOf(t).Elem().FieldByName("layers")
	v = reflect.NewAt(v.Type(), unsafe.Pointer(v.UnsafeAddr())).Elem()
	for _, k := range v.MapKeys() {
		s := v.MapIndex(k).Elem().Elem()
		if o := s.FieldByName("origin"); o.IsValid() {
			s = o.Elem()
		}
		if c := s.FieldByName("cache"); c.IsValid() && !c.IsNil() {
			(*fastcache.Cache)(unsafe.Pointer(c.Pointer())).Reset()
			return
		}
	}
}

// slotOnlyDiff: two observed lines differ in nothing but GetState/GetCommittedState values.
func slotOnlyDiff(x, y string) bool {
	blank := func(l string) string {
		toks := strings.Fields(l)
		for i, tok := range toks {
			c := strings.Index(tok, ":")
			if c < 0 || !(strings.HasPrefix(tok, "A") || strings.Contains(tok[:c], "|A")) {
				continue
			}
			f := strings.Split(tok, ",")
			if len(f) > 6 {
				f[6] = "_"
			}
			toks[i] = strings.Join(f, ",")
		}
		return strings.Join(toks, " ")
	}
	return x != y && blank(x) == blank(y)
}

// existsBalance parses a full dump: does account ai exist, and its balance.
func existsBalance(d string, ai int) (bool, string) {
	pre := fmt.Sprintf("A%d:", ai)
	for _, tok := range strings.Fields(d) {
		if i := strings.Index(tok, pre); i == 0 || (i > 0 && tok[i-1] == '|') {
			f := strings.Split(tok[i+len(pre):], ",")
			if len(f) >= 2 && len(f[0]) == 2 {
				return f[0][0] == '1', f[1]
			}
		}
	}
	return false, ""
}

// suicidedExists parses a full dump: account id -> (exists, suicided).
func suicidedExists(d string) map[int][2]bool {
	m := map[int][2]bool{}
	for _, tok := range strings.Fields(d) {
		if !strings.HasPrefix(tok, "A") {
			continue
		}
		var ai int
		colon := strings.Index(tok, ":")
		if colon < 0 {
			continue
		}
		fmt.Sscan(tok[1:colon], &ai)
		f := strings.Split(tok[colon+1:], ",")
		if len(f) < 6 {
			continue
		}
		m[ai] = [2]bool{f[0][0] == '1', f[5] == "1"}
	}
	return m
}

func indexOf(l []int, x int) int {
	for i, v := range l {
		if v == x {
			return i
		}
	}
	return 0
}

func (cr *caseRun) spec(a, k int) string {
	if !cr.sparse || cr.r.Chance(1, 8) {
		return "F"
	}
	as, ks := "-", "-"
	if a >= 0 {
		as = fmt.Sprint(a)
		if k >= 0 {
			ks = fmt.Sprint(k)
		}
	}
	return fmt.Sprintf("S.%s.%s", as, ks)
}

// commitAndReopen: dump, Commit, dump, re-open at the root, dump; read-back oracles.
// capd: 0 = no Cap, n+1 = snaps.Cap(root, n) after the Commit (snapshot-tree database only)
func (cr *caseRun) commitAndReopen(h int, de bool) {
	cr.commitAndReopenCap(h, de, cr.r.Pick(4, 3, 2, 1, 1))
}

func (cr *caseRun) commitAndReopenCap(h int, de bool, capd int) {
	e := cr.e
	st := e.hs[h]
	if st == nil {
		return
	}
	cr.do(op{h: h, code: "DU", dump: "F"})
	type pers struct {
		ex bool
		s  string
		su bool
		em bool
	}
	before := map[int]pers{}
	for _, ai := range e.ua {
		ex, s := persistent(st, ai, e.uk)
		before[ai] = pers{ex, s, st.HasSuicided(addrOf(ai)), st.Empty(addrOf(ai))}
	}
	res := cr.commit(h, de, "F", capd)
	var lab int
	if n, _ := fmt.Sscanf(res, "r%d", &lab); n != 1 {
		return
	}
	nh := cr.nextH
	cr.nextH++
	cr.lin[nh] = &lineage{ok: true, base: e.byLab[lab], clean: true, snapDump: map[int]string{}}
	cr.do(op{h: h, code: "NW", a: nh, v: int64(lab), dump: "N"})
	if e.hs[nh] == nil {
		return
	}
	cr.do(op{h: nh, code: "DU", dump: "F"})
	cr.results.WriteString(fmt.Sprintf("c%d", lab))
	for _, ai := range e.ua {
		_, own := persistent(st, ai, e.uk)
		ex, re := persistent(e.hs[nh], ai, e.uk)
		if own != re {
			cr.o.Fail(cr.step, "readback-differs", fmt.Sprintf("account %d: committing StateDB sees [%s], re-opened StateDB sees [%s]", ai, own, re))
		}
		b := before[ai]
		if ex && re != b.s {
			cr.o.Fail(cr.step, "readback-differs", fmt.Sprintf("account %d: written [%s], read back [%s]", ai, b.s, re))
		}
		if !ex && b.ex && !(b.su || b.em) {
			cr.o.Fail(cr.step, "readback-differs", fmt.Sprintf("account %d existed non-empty and not self-destructed before Commit [%s] but is absent after re-open", ai, b.s))
		}
	}
	cr.o.Count("oracle.readback-checked")
}

// reopenTip: Commit(de) + optional Cap + re-open; returns the new handle (or h when the re-open failed).
func (cr *caseRun) reopenTip(h int, de bool, capd int) int {
	cr.commitAndReopenCap(h, de, capd)
	if nh := cr.nextH - 1; cr.e.hs[nh] != nil && nh != h {
		return nh
	}
	return h
}

// famLifecycle: a linear chain of blocks, each a few transactions on one focal contract (storage writes and
// deletions, self-destruct, re-creation in the same or a later transaction/block, reverted transactions),
// committed with varying Cap depths, so that the contract's history is spread over the disk layer, a
// flattened accumulator layer and plain diff layers in every combination.
func (cr *caseRun) famLifecycle(cur int) int {
	r, e := cr.r, cr.e
	a := e.ua[r.Intn(3)]
	b := e.ua[r.Intn(3)]
	nb := 3 + r.Intn(6)
	for blk := 0; blk < nb; blk++ {
		for t := 1 + r.Intn(3); t > 0; t-- {
			rev := -1
			if r.Chance(1, 4) {
				res := cr.do(op{h: cur, code: "SN", dump: "F"})
				fmt.Sscanf(res, "i%d", &rev)
			}
			for i := 1 + r.Intn(3); i > 0; i-- {
				k := e.uk[r.Intn(3)]
				switch r.Pick(6, 2, 2, 2, 1, 1, 1) {
				case 0:
					cr.do(op{h: cur, code: "SS", a: a, k: k, v: int64(r.Intn(4)), dump: cr.spec(a, k)})
				case 1:
					cr.do(op{h: cur, code: "SU", a: a, dump: cr.spec(a, k)})
				case 2:
					cr.do(op{h: cur, code: "CA", a: a, dump: cr.spec(a, k)})
				case 3:
					cr.do(op{h: cur, code: "AB", a: a, v: int64(r.Intn(4)), dump: cr.spec(a, k)})
				case 4:
					cr.do(op{h: cur, code: "NO", a: a, v: int64(r.Intn(3)), dump: cr.spec(a, k)})
				case 5:
					cr.do(op{h: cur, code: "CO", a: a, v: int64(r.Intn(4)), dump: cr.spec(a, k)})
				case 6:
					cr.do(op{h: cur, code: "SS", a: b, k: k, v: int64(r.Intn(3)), dump: cr.spec(b, k)})
				}
			}
			if rev >= 0 {
				cr.do(op{h: cur, code: "RV", v: int64(rev), dump: "F"})
			}
			switch r.Pick(2, 2, 1) {
			case 0:
				cr.do(op{h: cur, code: "FI", v: int64(r.Pick(1, 3)), dump: cr.spec(a, -1)})
			case 1:
				cr.do(op{h: cur, code: "IR", v: int64(r.Pick(1, 3)), dump: cr.spec(a, -1)})
			}
		}
		cur = cr.reopenTip(cur, r.Chance(3, 4), r.Pick(5, 2, 2, 1, 1))
	}
	cr.o.Count("family.snapshot-contract-lifecycle")
	return cur
}

// famCopyCaches: a Copy taken between two transactions of a block carries the block's pending snapshot
// data (snapAccounts/snapStorage); the copy and the original then diverge on the same contract and both
// commit: neither diff layer may contain the other's writes.
func (cr *caseRun) famCopyCaches(cur int) int {
	r, e := cr.r, cr.e
	a := e.ua[r.Intn(3)]
	k := e.uk[r.Intn(3)]
	k2 := e.uk[(indexOf(e.uk, k)+1+r.Intn(2))%3]
	l := cr.lin[cur]
	cr.do(op{h: cur, code: "SS", a: a, k: k, v: int64(1 + r.Intn(3)), dump: cr.spec(a, k)})
	if r.Chance(3, 4) {
		cr.do(op{h: cur, code: "AB", a: a, v: int64(1 + r.Intn(3)), dump: cr.spec(a, -1)}) // mostly not an empty account
	}
	cr.do(op{h: cur, code: "IR", v: int64(r.Pick(1, 2)), dump: cr.spec(a, k)})
	nh := cr.nextH
	cr.nextH++
	cr.lin[nh] = l.clone()
	cr.do(op{h: cur, code: "DU", dump: "F"})
	cr.do(op{h: cur, code: "CP", v: int64(nh), dump: "N"})
	cr.do(op{h: nh, code: "DU", dump: "F"})
	if l.ok {
		if cr.last[cur] != cr.last[nh] {
			cr.o.Fail(cr.step, "copy-differs", fmt.Sprintf("original [%s] copy [%s]", cr.last[cur], cr.last[nh]))
		}
		cr.o.Count("oracle.copy-equal-checked")
	}
	first, second := cur, nh
	if r.Bool() {
		first, second = nh, cur
	}
	// the two diverge
	switch r.Intn(3) {
	case 0:
		cr.do(op{h: first, code: "SS", a: a, k: k2, v: int64(1 + r.Intn(3)), dump: cr.spec(a, k2)})
	case 1:
		cr.do(op{h: first, code: "SU", a: a, dump: cr.spec(a, k)})
	case 2:
		cr.do(op{h: first, code: "SS", a: a, k: k, v: 0, dump: cr.spec(a, k)})
	}
	if r.Bool() {
		cr.do(op{h: first, code: "IR", v: int64(r.Pick(1, 2)), dump: cr.spec(a, k)})
	}
	if r.Bool() {
		cr.do(op{h: second, code: "SS", a: a, k: k2, v: int64(r.Intn(3)), dump: cr.spec(a, k2)})
		if r.Bool() {
			cr.do(op{h: second, code: "IR", v: int64(r.Pick(1, 2)), dump: cr.spec(a, k)})
		}
	}
	t1 := cr.reopenTip(second, r.Chance(3, 4), 0)
	cr.do(op{h: first, code: "DU", dump: "F"})
	t2 := cr.reopenTip(first, r.Chance(3, 4), 0)
	cr.do(op{h: t1, code: "DU", dump: "F"})
	cr.o.Count("family.copy-with-snapshot-caches")
	if r.Bool() {
		return t1
	}
	return t2
}

// famStaleLayer: two StateDBs are opened on the same layer; one of them extends the chain and the layer is
// flattened away underneath the other (Cap), which must keep reading correctly (stale layer -> tries) and
// commit a correct block on top.
func (cr *caseRun) famStaleLayer(cur int) int {
	r, e := cr.r, cr.e
	a := e.ua[r.Intn(3)]
	k := e.uk[r.Intn(3)]
	// first everything into the disk layer, so that the shared layer below is the ONLY diff layer (it is then
	// flattened as the bottom-most one and marked stale), or the disk layer itself
	cr.do(op{h: cur, code: "NO", a: a, v: int64(1 + r.Intn(3)), dump: cr.spec(a, -1)})
	cur = cr.reopenTip(cur, r.Bool(), 1)
	onDisk := r.Chance(1, 3)
	lab := -1
	if !onDisk {
		cr.do(op{h: cur, code: "SS", a: a, k: k, v: int64(1 + r.Intn(3)), dump: cr.spec(a, k)})
		cr.do(op{h: cur, code: "AB", a: a, v: int64(1 + r.Intn(3)), dump: cr.spec(a, -1)})
	}
	res := cr.commit(cur, r.Bool(), "F", 0)
	if n, _ := fmt.Sscanf(res, "r%d", &lab); n != 1 {
		return cur
	}
	var hs [2]int
	for i := range hs {
		nh := cr.nextH
		cr.nextH++
		cr.lin[nh] = &lineage{ok: true, base: e.byLab[lab], clean: true, snapDump: map[int]string{}}
		cr.do(op{h: cur, code: "NW", a: nh, v: int64(lab), dump: "N"})
		if e.hs[nh] == nil {
			return cur
		}
		hs[i] = nh
	}
	k2 := e.uk[(indexOf(e.uk, k)+1)%3]
	cr.do(op{h: hs[0], code: "SS", a: a, k: k2, v: int64(1 + r.Intn(3)), dump: cr.spec(a, k2)})
	cr.do(op{h: hs[0], code: "SS", a: a, k: k, v: int64(r.Intn(3)), dump: cr.spec(a, k)})
	if r.Bool() {
		cr.do(op{h: hs[0], code: "SU", a: a, dump: cr.spec(a, k)})
	}
	tip := cr.reopenTip(hs[0], true, 1+r.Intn(2)) // Cap(root, 0) or Cap(root, 1): the shared layer is flattened / replaced
	// the other StateDB still holds the old layer object
	cr.do(op{h: hs[1], code: "DU", dump: "F"})
	cr.do(op{h: hs[1], code: "SS", a: a, k: k, v: int64(r.Intn(3)), dump: "F"})
	cr.do(op{h: hs[1], code: "AB", a: e.ua[r.Intn(3)], v: int64(1 + r.Intn(3)), dump: "F"})
	other := cr.reopenTip(hs[1], r.Bool(), 0)
	cr.do(op{h: other, code: "DU", dump: "F"})
	cr.o.Count("family.stale-layer-under-open-state")
	if r.Bool() {
		return other
	}
	return tip
}

// famFlattenAliasing (KNOWN FINDING, inherited from go-ethereum): diffLayer.flatten hands the child's inner
// storage map to the accumulator by reference and marks only the parent stale; when the next layer is
// merged into the same accumulator it writes into the map the original child object still owns. A StateDB
// that is still attached to that child then reads the NEXT block's slot value. Exhibited here on purpose
// (everywhere else the generator does not Cap while an open StateDB sits on such a layer); the snapshot
// database is abandoned afterwards, so this family runs last.
func (cr *caseRun) famFlattenAliasing(cur int) {
	r, e := cr.r, cr.e
	if cr.snapBroken || cr.e2.branched || cr.e2.attach[cur] != cr.e2.chainTip {
		return
	}
	cr.aliasing = true
	defer func() { cr.aliasing, cr.snapBroken = false, true }()
	ai := r.Intn(3)
	a, b := e.ua[ai], e.ua[(ai+1)%3]
	ki := r.Intn(3)
	k, k2 := e.uk[ki], e.uk[(ki+1)%3]
	// b1: everything so far into the disk layer; b2: the contract is destructed (its destruct marker makes every
	// later bloom probe for its slots hit); b3: re-created with slot k2; two StateDBs on b3; b4 writes slot k;
	// Cap flattens b2..b4 in one go
	cr.do(op{h: cur, code: "NO", a: b, v: 7, dump: "F"})
	cur = cr.reopenTip(cur, false, 1)
	if len(cr.e2.chain) != 0 {
		return
	}
	cr.do(op{h: cur, code: "NO", a: a, v: 1, dump: "F"})
	cr.do(op{h: cur, code: "SU", a: a, dump: "F"})
	cr.do(op{h: cur, code: "NO", a: b, v: 8, dump: "F"})
	cur = cr.reopenTip(cur, true, 0)
	cr.do(op{h: cur, code: "NO", a: a, v: 1, dump: "F"})
	cr.do(op{h: cur, code: "SS", a: a, k: k2, v: int64(1 + r.Intn(3)), dump: "F"})
	res := cr.commit(cur, true, "F", 0)
	var lab int
	if n, _ := fmt.Sscanf(res, "r%d", &lab); n != 1 {
		return
	}
	var hs [2]int
	for i := range hs {
		nh := cr.nextH
		cr.nextH++
		cr.lin[nh] = &lineage{ok: true, base: e.byLab[lab], clean: true, snapDump: map[int]string{}}
		cr.do(op{h: cur, code: "NW", a: nh, v: int64(lab), dump: "N"})
		if e.hs[nh] == nil {
			return
		}
		hs[i] = nh
	}
	cr.do(op{h: hs[0], code: "SS", a: a, k: k, v: int64(1 + r.Intn(3)), dump: "F"})
	cr.reopenTip(hs[0], true, 1) // Cap(root, 0)
	cr.o.Count("family.flatten-aliasing-known-finding")
	cr.do(op{h: hs[1], code: "DU", dump: "F"}) // reads slot k of the contract: 0 at its root
}

// famSiblingCap: two blocks on the same parent layer (a fork); one branch is flattened into the disk layer
// (Cap(root, 0) merges it INTO the shared parent, which thereby becomes stale and holds the other branch's
// sibling's data); the StateDB on the other branch must not see any of it.
func (cr *caseRun) famSiblingCap(cur int) int {
	r, e := cr.r, cr.e
	ai := r.Intn(3)
	a, b := e.ua[ai], e.ua[(ai+1)%3]
	ki := r.Intn(3)
	k, k2 := e.uk[ki], e.uk[(ki+1)%3]
	cr.do(op{h: cur, code: "NO", a: b, v: 5, dump: cr.spec(b, -1)})
	cur = cr.reopenTip(cur, false, 1)
	if cr.snapBroken || cr.e2.branched || len(cr.e2.chain) != 0 || cr.e2.attach[cur] != cr.e2.chainTip {
		return cur
	}
	// the shared parent P
	cr.do(op{h: cur, code: "SS", a: a, k: k2, v: 3, dump: cr.spec(a, k2)})
	cr.do(op{h: cur, code: "NO", a: a, v: 1, dump: cr.spec(a, -1)}) // not an empty account: it survives Commit(true)
	cr.do(op{h: cur, code: "NO", a: b, v: 1, dump: cr.spec(b, -1)})
	res := cr.commit(cur, false, "F", 0)
	var lab int
	if n, _ := fmt.Sscanf(res, "r%d", &lab); n != 1 {
		return cur
	}
	var hs [2]int
	for i := range hs {
		nh := cr.nextH
		cr.nextH++
		cr.lin[nh] = &lineage{ok: true, base: e.byLab[lab], clean: true, snapDump: map[int]string{}}
		cr.do(op{h: cur, code: "NW", a: nh, v: int64(lab), dump: "N"})
		if e.hs[nh] == nil {
			return cur
		}
		hs[i] = nh
	}
	// branch 1 does not touch a.k2 nor b
	cr.do(op{h: hs[0], code: "SS", a: a, k: k, v: int64(1 + r.Intn(3)), dump: cr.spec(a, k)})
	res = cr.commit(hs[0], true, "F", 0)
	if n, _ := fmt.Sscanf(res, "r%d", &lab); n != 1 {
		return cur
	}
	// opened now, read only after the other branch has been flattened (nothing cached in the StateDB yet)
	t1 := cr.nextH
	cr.nextH++
	cr.lin[t1] = &lineage{ok: true, base: e.byLab[lab], clean: true, snapDump: map[int]string{}}
	cr.do(op{h: hs[0], code: "NW", a: t1, v: int64(lab), dump: "N"})
	if e.hs[t1] == nil {
		return cur
	}
	// branch 2 overwrites both, possibly after destructing the contract, and goes to disk
	if r.Chance(1, 3) {
		cr.do(op{h: hs[1], code: "SU", a: a, dump: cr.spec(a, k2)})
		cr.do(op{h: hs[1], code: "FI", v: 1, dump: cr.spec(a, k2)})
	}
	cr.do(op{h: hs[1], code: "SS", a: a, k: k2, v: int64(1 + r.Intn(2)), dump: cr.spec(a, k2)})
	cr.do(op{h: hs[1], code: "NO", a: b, v: 2, dump: cr.spec(b, -1)})
	cr.do(op{h: hs[1], code: "DU", dump: "F"})
	res = cr.commitF(hs[1], true, "F", 1, true)
	t2 := hs[1]
	if n, _ := fmt.Sscanf(res, "r%d", &lab); n == 1 {
		nh := cr.nextH
		cr.nextH++
		cr.lin[nh] = &lineage{ok: true, base: e.byLab[lab], clean: true, snapDump: map[int]string{}}
		cr.do(op{h: hs[1], code: "NW", a: nh, v: int64(lab), dump: "N"})
		if e.hs[nh] != nil {
			t2 = nh
			cr.do(op{h: t2, code: "DU", dump: "F"})
		}
	}
	// branch 1 reads what branch 2 overwrote: its layer's parent is stale now
	cr.do(op{h: t1, code: "DU", dump: "F"})
	cr.do(op{h: t1, code: "SS", a: a, k: k2, v: int64(r.Intn(4)), dump: "F"})
	cr.do(op{h: t1, code: "AB", a: b, v: int64(r.Intn(3)), dump: "F"})
	t1 = cr.reopenTip(t1, r.Bool(), 0)
	cr.o.Count("family.sibling-branch-flattened")
	if r.Bool() {
		return t1
	}
	return t2
}

// famDeepChain: more than 128 diff layers on one chain, so that Commit's own Cap(root, 128) flattens the
// oldest blocks into the disk layer while a later block's self-destruct + re-creation still sits in a diff layer.
func (cr *caseRun) famDeepChain(cur int) int {
	r, e := cr.r, cr.e
	if cr.snapBroken || cr.e2.branched || cr.e2.attach[cur] != cr.e2.chainTip {
		return cur
	}
	a := e.ua[r.Intn(3)]
	b := e.ua[(indexOf(e.ua, a)+1)%3]
	k := e.uk[r.Intn(3)]
	k2 := e.uk[(indexOf(e.uk, k)+1)%3]
	// start from a chain without diff layers (no open StateDB can then sit on a layer that Commit's own Cap merges)
	cr.do(op{h: cur, code: "NO", a: b, v: 9, dump: "F"})
	cur = cr.reopenTip(cur, false, 1)
	if cr.snapBroken || cr.e2.branched || len(cr.e2.chain) != 0 || cr.e2.attach[cur] != cr.e2.chainTip {
		return cur
	}
	cr.do(op{h: cur, code: "SS", a: a, k: k, v: int64(1 + r.Intn(3)), dump: "F"})
	cr.do(op{h: cur, code: "AB", a: a, v: int64(1 + r.Intn(5)), dump: "F"})
	cur = cr.reopenTip(cur, false, 0)
	at := 1 + r.Intn(4) // block (after the first) that destructs and re-creates the contract
	total := 129 + r.Intn(5)
	for blk := 1; blk < total; blk++ {
		if blk == at {
			cr.do(op{h: cur, code: "SU", a: a, dump: "F"})
			if r.Bool() {
				cr.do(op{h: cur, code: "FI", v: 1, dump: "F"})
			}
			switch r.Intn(3) {
			case 0:
				cr.do(op{h: cur, code: "AB", a: a, v: int64(1 + r.Intn(5)), dump: "F"})
			case 1:
				cr.do(op{h: cur, code: "CA", a: a, dump: "F"})
				cr.do(op{h: cur, code: "NO", a: a, v: 1, dump: "F"})
			case 2:
				cr.do(op{h: cur, code: "SS", a: a, k: k2, v: int64(1 + r.Intn(3)), dump: "F"})
			}
		}
		// a strictly increasing nonce keeps every block's root distinct
		cr.do(op{h: cur, code: "NO", a: b, v: int64(10 + blk), dump: "S.-.-"})
		res := cr.commit(cur, true, "S.-.-", 0)
		var lab int
		if n, _ := fmt.Sscanf(res, "r%d", &lab); n != 1 {
			return cur
		}
		nh := cr.nextH
		cr.nextH++
		cr.lin[nh] = &lineage{ok: true, base: e.byLab[lab], clean: true, snapDump: map[int]string{}}
		cr.do(op{h: cur, code: "NW", a: nh, v: int64(lab), dump: "N"})
		if e.hs[nh] == nil {
			return cur
		}
		cur = nh
		if blk >= 126 || blk <= at+1 {
			cr.do(op{h: cur, code: "DU", dump: "F"})
		}
	}
	if !cr.snapBroken {
		cr.layerReads(cr.e2.lastRoot, 6)
		cr.verifyLayers(cr.e2.lastRoot)
	}
	cr.do(op{h: cur, code: "SS", a: a, k: k, v: int64(1 + r.Intn(3)), dump: "F"})
	cr.o.Count("family.deep-chain-128-layers")
	// every further Commit on this chain would run Commit's own Cap(root, 128) again, whose bookkeeping (children keyed
	// by root) needs pairwise distinct roots -- the random phase does not guarantee that: the snapshot database stops here
	cr.snapBroken = true
	return cur
}

func (cr *caseRun) generate() {
	r, e := cr.r, cr.e
	ua, uk := e.ua, e.uk
	cur := 0
	live := []int{0}
	// the known flatten-aliasing finding is exhibited in a few cases, first thing (the snapshot database is abandoned afterwards)
	if r.Chance(1, 50) || os.Getenv("C08FAM") == "alias" {
		cr.famFlattenAliasing(0)
	}
	// prelude: populate, Commit(false) so that empty accounts persist, re-open
	if r.Chance(3, 4) {
		np := 2 + r.Intn(6)
		for i := 0; i < np; i++ {
			a := ua[r.Intn(3)]
			switch r.Pick(3, 3, 2, 3, 1) {
			case 0:
				cr.do(op{h: 0, code: "AB", a: a, v: 0, dump: cr.spec(a, -1)}) // creates an EMPTY account
			case 1:
				cr.do(op{h: 0, code: "AB", a: a, v: int64(1 + r.Intn(9)), dump: cr.spec(a, -1)})
			case 2:
				cr.do(op{h: 0, code: "NO", a: a, v: int64(1 + r.Intn(3)), dump: cr.spec(a, -1)})
			case 3:
				k := uk[r.Intn(3)]
				cr.do(op{h: 0, code: "SS", a: a, k: k, v: int64(1 + r.Intn(3)), dump: cr.spec(a, k)})
			case 4:
				cr.do(op{h: 0, code: "CO", a: a, v: int64(1 + r.Intn(3)), dump: cr.spec(a, -1)})
			}
		}
		cr.commitAndReopen(0, r.Chance(1, 4))
		if e.hs[cr.nextH-1] != nil && r.Chance(5, 6) {
			cur = cr.nextH - 1
			live = append(live, cur)
		}
	}
	// directed boundary family (snapshot layers): storage written in one block and flattened into the
	// disk layer, the account destructed and re-created in a later block without touching the slot,
	// then read through a state opened on the new root (with the tree: diff layer over disk layer)
	if r.Chance(1, 12) {
		a := ua[r.Intn(3)]
		k := uk[r.Intn(3)]
		cr.do(op{h: cur, code: "SS", a: a, k: k, v: int64(1 + r.Intn(3)), dump: cr.spec(a, k)})
		cr.do(op{h: cur, code: "AB", a: a, v: int64(1 + r.Intn(5)), dump: cr.spec(a, -1)})
		cr.commitAndReopenCap(cur, r.Bool(), 1+r.Intn(2))
		if nh := cr.nextH - 1; e.hs[nh] != nil {
			cur = nh
			live = append(live, nh)
			for i := r.Intn(3); i > 0; i-- { // optional intermediate blocks that leave diff layers
				cr.do(op{h: cur, code: "NO", a: ua[r.Intn(3)], v: int64(1 + r.Intn(3)), dump: cr.spec(-1, -1)})
				cr.commitAndReopenCap(cur, true, r.Intn(3))
				if n2 := cr.nextH - 1; e.hs[n2] != nil {
					cur = n2
				}
			}
			cr.do(op{h: cur, code: "SU", a: a, dump: cr.spec(a, k)})
			if r.Bool() {
				cr.do(op{h: cur, code: "FI", v: 1, dump: cr.spec(a, k)})
			}
			switch r.Intn(3) {
			case 0:
				cr.do(op{h: cur, code: "AB", a: a, v: int64(1 + r.Intn(5)), dump: cr.spec(a, k)})
			case 1:
				cr.do(op{h: cur, code: "CA", a: a, dump: cr.spec(a, k)})
				cr.do(op{h: cur, code: "NO", a: a, v: 1, dump: cr.spec(a, k)})
			case 2:
				k2 := uk[(indexOf(uk, k)+1)%3]
				cr.do(op{h: cur, code: "SS", a: a, k: k2, v: int64(1 + r.Intn(3)), dump: cr.spec(a, k2)})
			}
			cr.commitAndReopenCap(cur, true, r.Intn(2)*2) // keep the destruct in a diff layer (no cap, or cap to depth 1)
			if n3 := cr.nextH - 1; e.hs[n3] != nil {
				cur = n3
				live = append(live, n3)
				cr.do(op{h: cur, code: "SS", a: a, k: k, v: int64(1 + r.Intn(3)), dump: "F"})
			}
			cr.o.Count("family.destruct-recreate-over-disk-layer")
		}
		if len(live) > 4 {
			live = live[len(live)-4:]
		}
	}
	// directed boundary family: reverted touch of the existing empty RIPEMD account, then IntermediateRoot(true)
	if r.Chance(1, 20) {
		cr.do(op{h: cur, code: "AB", a: ripemdID, v: 0, dump: cr.spec(ripemdID, -1)})
		cr.commitAndReopen(cur, false)
		if nh := cr.nextH - 1; e.hs[nh] != nil {
			cur = nh
			live = append(live, nh)
			res := cr.do(op{h: cur, code: "SN", dump: "F"})
			var id int
			fmt.Sscanf(res, "i%d", &id)
			cr.do(op{h: cur, code: "AB", a: ripemdID, v: 0, dump: cr.spec(ripemdID, -1)})
			cr.do(op{h: cur, code: "RV", v: int64(id), dump: "F"})
			cr.do(op{h: cur, code: "IR", v: 1, dump: "F"})
			cr.o.Count("family.ripemd-reverted-touch")
		}
	}
	// further directed families for the snapshot layers (each returns the handle to continue on)
	addLive := func(h int) {
		for _, x := range live {
			if x == h {
				return
			}
		}
		live = append(live, h)
	}
	fam := r.Pick(22, 4, 2, 2, 2)
	deep := r.Chance(1, 250)
	switch os.Getenv("C08FAM") { // development aid: force one family in every case
	case "lifecycle":
		fam = 1
	case "copy":
		fam = 2
	case "stale":
		fam = 3
	case "sibling":
		fam = 4
	case "deep":
		deep = true
	}
	switch fam {
	case 1:
		cur = cr.famLifecycle(cur)
		addLive(cur)
	case 2:
		cur = cr.famCopyCaches(cur)
		addLive(cur)
	case 3:
		cur = cr.famStaleLayer(cur)
		addLive(cur)
	case 4:
		cur = cr.famSiblingCap(cur)
		addLive(cur)
	}
	if deep {
		cur = cr.famDeepChain(cur)
		addLive(cur)
	}
	if len(live) > 4 {
		live = live[len(live)-4:]
	}
	nops := 10 + r.Intn(60)
	if *out.Tier == "thorough" && r.Chance(1, 10) {
		nops += 60
	}
	for i := 0; i < nops; i++ {
		if len(live) > 1 && r.Chance(1, 6) {
			cur = live[r.Intn(len(live))]
		}
		h := cur
		st := e.hs[h]
		if st == nil {
			cur = 0
			continue
		}
		l := cr.lin[h]
		a := ua[r.Intn(3)]
		k := uk[r.Intn(3)]
		switch r.Pick(4, 8, 4, 3, 4, 4, 14, 4, 3, 2, 3, 2, 2, 3, 4, 2, 9, 9, 4, 4, 2, 2, 6, 2) {
		case 0:
			cr.do(op{h: h, code: "CA", a: a, dump: cr.spec(a, -1)})
		case 1:
			v := int64(r.Pick(3, 2, 2, 1)) // 0 is the touch
			if v == 3 {
				v = int64(10 + r.Intn(90))
			}
			cr.do(op{h: h, code: "AB", a: a, v: v, dump: cr.spec(a, -1)})
		case 2:
			bal := st.GetBalance(addrOf(a)).Int64()
			v := int64(0)
			if bal > 0 && r.Chance(4, 5) {
				v = 1 + int64(r.Intn(int(bal)))
			}
			cr.do(op{h: h, code: "SB", a: a, v: v, dump: cr.spec(a, -1)})
		case 3:
			cr.do(op{h: h, code: "BA", a: a, v: int64(r.Pick(2, 1, 1)) * int64(1+r.Intn(5)), dump: cr.spec(a, -1)})
		case 4:
			cr.do(op{h: h, code: "NO", a: a, v: int64(r.Intn(3)), dump: cr.spec(a, -1)})
		case 5:
			cr.do(op{h: h, code: "CO", a: a, v: int64(r.Intn(4)), dump: cr.spec(a, -1)})
		case 6:
			cr.do(op{h: h, code: "SS", a: a, k: k, v: int64(r.Pick(2, 2, 2, 1)), dump: cr.spec(a, k)})
		case 7:
			cr.do(op{h: h, code: "SU", a: a, dump: cr.spec(a, -1)})
		case 8:
			cr.do(op{h: h, code: "AR", v: int64(1 + r.Intn(5)), dump: cr.spec(-1, -1)})
		case 9:
			ref := int64(st.GetRefund())
			v := int64(0)
			if ref > 0 {
				v = 1 + int64(r.Intn(int(ref)))
			}
			if r.Chance(1, 12) {
				v = ref + 1 // documented panic
			}
			cr.do(op{h: h, code: "SR", v: v, dump: cr.spec(-1, -1)})
		case 10:
			cr.do(op{h: h, code: "LG", v: int64(1 + r.Intn(9)), dump: "F"})
		case 11:
			cr.do(op{h: h, code: "PI", a: r.Intn(3), v: int64(1 + r.Intn(5)), dump: "F"})
		case 12:
			cr.do(op{h: h, code: "AA", a: a, dump: "F"})
		case 13:
			cr.do(op{h: h, code: "AS", a: a, k: k, dump: "F"})
		case 14:
			cr.do(op{h: h, code: "TS", a: a, k: k, v: int64(r.Intn(3)), dump: "F"})
		case 15:
			cr.do(op{h: h, code: "TX", a: r.Intn(3), v: int64(r.Intn(3)), dump: cr.spec(-1, -1)})
		case 16:
			d := "F"
			if cr.sparse && r.Bool() {
				d = "S.-.-"
			}
			cr.do(op{h: h, code: "SN", dump: d})
		case 17:
			if len(l.valid) == 0 {
				if r.Chance(1, 10) {
					cr.do(op{h: h, code: "RV", v: int64(r.Intn(4)), dump: "F"}) // invalid id: documented panic
				}
				continue
			}
			id := l.valid[len(l.valid)-1-r.Pick(6, 2, 1)%len(l.valid)]
			if r.Chance(1, 40) {
				id = 1000 // invalid
			}
			cr.do(op{h: h, code: "RV", v: int64(id), dump: "F"})
			cr.results.WriteString("v")
		case 18:
			cr.do(op{h: h, code: "FI", v: int64(r.Pick(1, 2)), dump: cr.spec(a, k)})
		case 19:
			cr.do(op{h: h, code: "IR", v: int64(r.Pick(1, 2)), dump: cr.spec(a, k)})
		case 20:
			if r.Bool() {
				cr.commit(h, r.Pick(1, 2) == 1, cr.spec(a, k), r.Pick(4, 3, 2, 1, 1))
			} else {
				cr.commitAndReopen(h, r.Chance(2, 3))
				if len(live) < 4 && e.hs[cr.nextH-1] != nil && r.Bool() {
					live = append(live, cr.nextH-1)
					if r.Bool() {
						cur = cr.nextH - 1
					}
				}
			}
		case 21:
			if len(live) >= 4 {
				continue
			}
			if !l.clean && r.Bool() { // half of the copies are taken at a transaction boundary
				cr.do(op{h: h, code: []string{"FI", "IR"}[r.Intn(2)], v: int64(r.Pick(1, 2)), dump: cr.spec(a, k)})
			}
			nh := cr.nextH
			cr.nextH++
			cr.lin[nh] = l.clone()
			if !cr.lin[nh].ok {
				cr.o.Count("copy.midtx")
			} else {
				cr.o.Count("copy.clean")
			}
			cr.do(op{h: h, code: "DU", dump: "F"})
			cr.do(op{h: h, code: "CP", v: int64(nh), dump: "N"})
			cr.do(op{h: nh, code: "DU", dump: "F"})
			// A StateDB that descends from a copy taken in the middle of a transaction may carry
			// live objects whose suicided flag was never finalised (Copy drops the journal); its
			// own copies are then compared by the model only.
			if l.ok {
				if cr.last[h] != cr.last[nh] {
					cr.o.Fail(cr.step, "copy-differs", fmt.Sprintf("original [%s] copy [%s]", cr.last[h], cr.last[nh]))
				}
				cr.o.Count("oracle.copy-equal-checked")
			} else {
				cr.o.Count("oracle.copy-equal-skipped")
			}
			// Copy does not carry thash/txIndex; the dump has no such field, so equality is expected
			live = append(live, nh)
			if r.Bool() {
				cur = nh
			}
			cr.results.WriteString("p")
		case 22:
			// look at another handle: must be unchanged by the work done elsewhere
			oh := live[r.Intn(len(live))]
			if oh == h && len(live) > 1 {
				oh = live[(r.Intn(len(live)-1)+1+indexOf(live, h))%len(live)]
			}
			cr.do(op{h: oh, code: "DU", dump: "F"})
		case 23:
			// re-open a previously committed root
			if len(cr.commits) == 0 || len(live) >= 4 {
				continue
			}
			lab := cr.commits[r.Intn(len(cr.commits))]
			nh := cr.nextH
			cr.nextH++
			cr.lin[nh] = &lineage{ok: true, base: e.byLab[lab], clean: true, snapDump: map[int]string{}}
			cr.do(op{h: h, code: "NW", a: nh, v: int64(lab), dump: "N"})
			if e.hs[nh] != nil {
				if r.Bool() { // otherwise its first reads happen later, perhaps after the tree has moved on
					cr.do(op{h: nh, code: "DU", dump: "F"})
				}
				live = append(live, nh)
			}
		}
	}
	// epilogue: every live handle is dumped, committed, re-opened and read back
	for _, h := range live {
		cr.do(op{h: h, code: "DU", dump: "F"})
	}
	for _, h := range live {
		cr.commitAndReopen(h, r.Bool())
	}
	// root <-> content: equal labels must mean equal persistent dumps of the re-opened states (checked by the model
	// comparison through labels); here directly: two committed roots are equal iff their re-opened dumps are equal
	seen := map[int]string{}
	for _, lab := range cr.commits {
		st, err := state.New(e.byLab[lab], e.sdb, nil)
		if err != nil {
			cr.o.Fail(cr.step, "db-error", "cannot re-open committed root")
			continue
		}
		var parts []string
		for _, ai := range ua {
			_, s := persistent(st, ai, uk)
			parts = append(parts, s)
		}
		seen[lab] = strings.Join(parts, " ")
	}
	for l1, s1 := range seen {
		for l2, s2 := range seen {
			if l1 < l2 && s1 == s2 {
				cr.o.Fail(cr.step, "root-content", fmt.Sprintf("different roots %d,%d with identical content [%s]", l1, l2, s1))
			}
		}
	}
}
