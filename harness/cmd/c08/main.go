package main

import (
	"fmt"
	"math/big"

	"github.com/kardiachain/go-kardia/kai/state"
	"github.com/kardiachain/go-kardia/kai/state/snapshot"
	"github.com/kardiachain/go-kardia/kai/kaidb/memorydb"
	"github.com/kardiachain/go-kardia/lib/common"
)

func main() {
	mdb := memorydb.New()
	sdb := state.NewDatabase(mdb)
	st, err := state.New(common.Hash{}, sdb, nil)
	fmt.Println(err)
	rip := common.HexToAddress("0x03")
	a1 := common.HexToAddress("0xa1")
	st.AddBalance(rip, big.NewInt(0))
	st.SetState(a1, common.BigToHash(big.NewInt(1)), common.BigToHash(big.NewInt(7)))
	st.SetCode(a1, []byte{1, 2, 3})
	root, err := st.Commit(false)
	fmt.Println(root.Hex(), err)
	st2, err := state.New(root, sdb, nil)
	fmt.Println(err, st2.Exist(rip), st2.Empty(rip), st2.GetState(a1, common.BigToHash(big.NewInt(1))), st2.GetCode(a1))
	// ripemd quirk
	id := st2.Snapshot()
	st2.AddBalance(rip, big.NewInt(0))
	st2.RevertToSnapshot(id)
	r2 := st2.IntermediateRoot(true)
	st3, _ := state.New(root, sdb, nil)
	r3 := st3.IntermediateRoot(true)
	fmt.Println("ripemd roots equal:", r2 == r3, st2.Exist(rip), st3.Exist(rip))
	// snapshot tree
	snaps, err := snapshot.New(snapshot.Config{CacheSize: 1, NoBuild: false, AsyncBuild: false}, mdb, sdb.TrieDB(), root)
	fmt.Println("snaps", snaps != nil, err)
	st4, err := state.New(root, sdb, snaps)
	fmt.Println(err, st4.Exist(rip), st4.GetState(a1, common.BigToHash(big.NewInt(1))), st4.GetCode(a1))
	st4.SetState(a1, common.BigToHash(big.NewInt(2)), common.BigToHash(big.NewInt(9)))
	r4, err := st4.Commit(true)
	fmt.Println(r4.Hex(), err)
	st5, err := state.New(r4, sdb, snaps)
	fmt.Println(err, st5.Exist(rip), st5.GetState(a1, common.BigToHash(big.NewInt(2))))
}
