// C07 harness, round 3 additions: leaf iterator (trie/iterator.go), range proofs
// (trie/proof.go VerifyRangeProof and helpers), the reference-counting node database
// (trie/triedb/hashdb: Reference / Dereference / Cap), StackTrie.Commit with a node writer and
// StackTrie (un)marshalling, and a key/value family aimed at the 32-byte embedding threshold.
package main

import (
	"bytes"
	"fmt"
	"sort"
	"strings"

	"github.com/kardiachain/go-kardia/kai/kaidb"
	"github.com/kardiachain/go-kardia/kai/kaidb/memorydb"
	"github.com/kardiachain/go-kardia/kai/rawdb"
	"github.com/kardiachain/go-kardia/lib/common"
	"github.com/kardiachain/go-kardia/trie"

	"verif/harness/internal/gen"
	"verif/harness/internal/out"
)

// ---------------------------------------------------------------- helpers

// hexPath: the path of a leaf as the node iterator sees it (nibbles, then the terminator 16)
func hexPath(k []byte, term bool) []byte {
	p := make([]byte, 0, 2*len(k)+1)
	for _, b := range k {
		p = append(p, b>>4, b&15)
	}
	if term {
		p = append(p, 16)
	}
	return p
}

type entry struct{ k, v []byte }

// trieEntries: the content as (trie-level key, value), sorted by key bytes
func trieEntries(content map[string][]byte, keyOf func([]byte) []byte) []entry {
	es := make([]entry, 0, len(content))
	for k, v := range content {
		es = append(es, entry{common.CopyBytes(keyOf([]byte(k))), v})
	}
	sort.Slice(es, func(i, j int) bool { return bytes.Compare(es[i].k, es[j].k) < 0 })
	return es
}

func (t *tr) nodeIterator(start []byte) trie.NodeIterator {
	if t.secure != nil {
		return t.secure.NodeIterator(start)
	}
	return t.plain.NodeIterator(start)
}

// incDec: the big-endian neighbour of k (same length), ok=false on wrap-around
func incDec(k []byte, up bool) ([]byte, bool) {
	n := common.CopyBytes(k)
	for i := len(n) - 1; i >= 0; i-- {
		if up {
			n[i]++
			if n[i] != 0 {
				return n, true
			}
		} else {
			n[i]--
			if n[i] != 0xff {
				return n, true
			}
		}
	}
	return n, false
}

func sameLen(es []entry, l int) bool {
	for _, e := range es {
		if len(e.k) != l {
			return false
		}
	}
	return true
}

// ---------------------------------------------------------------- iterator

func doIter(o *out.Out, r *gen.Rand, step int, s int, st *slotState, uni [][]byte, keyOf func([]byte) []byte) string {
	es := trieEntries(st.content, keyOf)
	var start []byte
	switch r.Pick(4, 4, 3, 2, 2) {
	case 0: // from the beginning
	case 1: // an existing (or deleted) key of the universe
		start = common.CopyBytes(keyOf(uni[r.Intn(len(uni))]))
	case 2: // the neighbour of one
		start, _ = incDec(keyOf(uni[r.Intn(len(uni))]), r.Bool())
	case 3: // a proper prefix / an extension of one
		k := keyOf(uni[r.Intn(len(uni))])
		if len(k) > 0 && r.Bool() {
			start = common.CopyBytes(k[:r.Intn(len(k))])
		} else {
			start = append(common.CopyBytes(k), byte(r.Intn(256)))
		}
	default:
		start = r.Bytes(r.Intn(4))
	}
	in := fmt.Sprintf("I %d %s", s, hx(start))
	var got []entry
	var iterErr error
	proofsChecked := 0
	var root common.Hash
	if catch(func() {
		it := trie.NewIterator(st.t.nodeIterator(start))
		root = st.t.hash()
		for it.Next() {
			got = append(got, entry{common.CopyBytes(it.Key), common.CopyBytes(it.Value)})
			// ORACLE: the proof the iterator produces for the leaf it stands on verifies to that leaf
			if proofsChecked < 3 {
				proofsChecked++
				blobs := it.Prove()
				cls, val, _ := verifyClass(root, it.Key, proofDB(blobs))
				if cls == "PANIC" || cls == "e" || !bytes.Equal(val, it.Value) {
					o.Fail(step, "iter-proof", fmt.Sprintf("Iterator.Prove at key %s: proof verifies to %s, iterator value %s", hx(it.Key), cls, hx(it.Value)))
				}
			}
		}
		iterErr = it.Err
	}) {
		o.Fail(step, "iter-panic", "iterator panicked (start "+hx(start)+")")
		o.Count("op.iter")
		return in + "\x00PANIC"
	}
	o.Count("op.iter")
	if iterErr != nil {
		o.Fail(step, "missing-node", "iterator error: "+iterErr.Error())
		return in + "\x00missing"
	}
	// ORACLE: the iterator enumerates exactly the content whose path is >= the start path, each
	// key once, in path order (nibbles, terminator last)
	sp := hexPath(start, false)
	var want []entry
	for _, e := range es {
		if bytes.Compare(hexPath(e.k, true), sp) >= 0 {
			want = append(want, e)
		}
	}
	sort.Slice(want, func(i, j int) bool { return bytes.Compare(hexPath(want[i].k, true), hexPath(want[j].k, true)) < 0 })
	ok := len(want) == len(got)
	for i := 0; ok && i < len(want); i++ {
		ok = bytes.Equal(want[i].k, got[i].k) && bytes.Equal(want[i].v, got[i].v)
	}
	if !ok {
		o.Fail(step, "iter-content", fmt.Sprintf("iteration from %s yields %s, content from there is %s", hx(start), fmtEntries(got), fmtEntries(want)))
	}
	return in + "\x00i:" + fmtEntries(got)
}

func fmtEntries(es []entry) string {
	ss := make([]string, len(es))
	for i, e := range es {
		ss[i] = hx(e.k) + "=" + hx(e.v)
	}
	return strings.Join(ss, ",")
}

// ---------------------------------------------------------------- range proofs

func rangeCall(root common.Hash, first, last []byte, keys, vals [][]byte, blobs [][]byte, nilProof bool) (cls string, more bool) {
	var pdb kaidb.KeyValueReader
	if !nilProof {
		pdb = proofDB(blobs)
	}
	var err error
	if catch(func() { more, err = trie.VerifyRangeProof(root, first, last, keys, vals, pdb) }) {
		return "PANIC", false
	}
	if err != nil {
		return "q:e", false
	}
	if more {
		return "q:ok:1", true
	}
	return "q:ok:0", false
}

func rangeLine(s int, first, last []byte, keys, vals [][]byte, blobs [][]byte, nilProof bool) string {
	var b strings.Builder
	mode := "p"
	if nilProof {
		mode = "n"
	}
	fmt.Fprintf(&b, "Q %d %s %s %s %d", s, hx(first), hx(last), mode, len(keys))
	for _, k := range keys {
		b.WriteString(" " + hx(k))
	}
	fmt.Fprintf(&b, " %d", len(vals))
	for _, v := range vals {
		b.WriteString(" " + hx(v))
	}
	fmt.Fprintf(&b, " %d", len(blobs))
	for _, x := range blobs {
		b.WriteString(" " + hx(x))
	}
	return b.String()
}

func doRange(o *out.Out, r *gen.Rand, step int, s int, st *slotState, uni [][]byte, keyOf func([]byte) []byte) {
	es := trieEntries(st.content, keyOf)
	root := st.t.copy().hash()
	// the key length ranges are stated for: all trie-level keys of one length
	L := -1
	if len(es) > 0 {
		L = len(es[0].k)
	} else {
		L = len(keyOf(uni[0]))
	}
	orderly := sameLen(es, L)
	pickKey := func() []byte {
		switch r.Pick(5, 3, 3, 1, 2, 1) {
		case 0:
			if len(es) > 0 {
				return common.CopyBytes(es[r.Intn(len(es))].k)
			}
			return make([]byte, L)
		case 1:
			if len(es) > 0 {
				k, _ := incDec(es[r.Intn(len(es))].k, true)
				return k
			}
			return r.Bytes(L)
		case 2:
			if len(es) > 0 {
				k, _ := incDec(es[r.Intn(len(es))].k, false)
				return k
			}
			return r.Bytes(L)
		case 3:
			return make([]byte, L) // the zero key
		case 4:
			return r.Bytes(L)
		default:
			return bytes.Repeat([]byte{0xff}, L)
		}
	}
	scenario := r.Pick(10, 2, 3, 3)
	var first, last []byte
	var keys, vals [][]byte
	nilProof := false
	switch scenario {
	case 0: // two edge proofs
		first, last = pickKey(), pickKey()
		if bytes.Compare(first, last) > 0 && !r.Chance(1, 10) {
			first, last = last, first
		}
		if r.Chance(1, 25) && len(last) > 0 {
			last = last[:len(last)-1] // edge keys of different length
		}
		for _, e := range es {
			if bytes.Compare(e.k, first) >= 0 && bytes.Compare(e.k, last) <= 0 {
				keys, vals = append(keys, e.k), append(vals, e.v)
			}
		}
	case 1: // the whole leaf set without any proof
		nilProof = true
		for _, e := range es {
			keys, vals = append(keys, e.k), append(vals, e.v)
		}
		first, last = pickKey(), pickKey()
	case 2: // one element, both edges on it
		if len(es) > 0 && !r.Chance(1, 6) {
			e := es[r.Intn(len(es))]
			first, last = common.CopyBytes(e.k), common.CopyBytes(e.k)
			keys, vals = [][]byte{e.k}, [][]byte{e.v}
		} else {
			first = pickKey()
			last = common.CopyBytes(first)
			keys, vals = [][]byte{first}, [][]byte{genValue(r)}
		}
	default: // zero elements: nothing at or right of first
		if len(es) > 0 && r.Chance(2, 3) {
			first, _ = incDec(es[len(es)-1].k, true)
		} else {
			first = pickKey()
		}
		last = common.CopyBytes(first)
	}
	// tampering of the leaf stream
	tampered := ""
	if r.Chance(1, 2) {
		n := len(keys)
		cp := func() {
			keys = append([][]byte{}, keys...)
			vals = append([][]byte{}, vals...)
		}
		switch r.Pick(3, 2, 2, 3, 3, 1, 1, 1, 1, 2) {
		case 0: // drop an inner element (a gap)
			if n >= 3 {
				i := 1 + r.Intn(n-2)
				cp()
				keys, vals = append(keys[:i], keys[i+1:]...), append(vals[:i], vals[i+1:]...)
				tampered = "gap"
			}
		case 1: // drop the first element
			if n >= 2 {
				keys, vals = keys[1:], vals[1:]
				tampered = "drop-first"
			}
		case 2: // drop the last element
			if n >= 2 {
				keys, vals = keys[:n-1], vals[:n-1]
				tampered = "drop-last"
			}
		case 3: // another value
			if n >= 1 {
				i := r.Intn(n)
				cp()
				nv := common.CopyBytes(vals[i])
				if r.Bool() && len(nv) > 0 {
					nv[r.Intn(len(nv))] ^= byte(1 << uint(r.Intn(8)))
				} else {
					nv = genValue(r)
				}
				if !bytes.Equal(nv, vals[i]) {
					vals[i] = nv
					tampered = "value"
				}
			}
		case 4: // an additional element that is not in the trie
			if !nilProof || n > 0 {
				k := pickKey()
				if _, in := st.contentByTrieKey(keyOf)[string(k)]; !in {
					cp()
					keys, vals = append(keys, k), append(vals, genValue(r))
					idx := make([]int, len(keys))
					for i := range idx {
						idx[i] = i
					}
					sort.Slice(idx, func(a, b int) bool { return bytes.Compare(keys[idx[a]], keys[idx[b]]) < 0 })
					k2, v2 := make([][]byte, len(keys)), make([][]byte, len(keys))
					for i, j := range idx {
						k2[i], v2[i] = keys[j], vals[j]
					}
					keys, vals = k2, v2
					tampered = "extra"
				}
			}
		case 5: // two neighbours swapped
			if n >= 2 {
				i := r.Intn(n - 1)
				cp()
				keys[i], keys[i+1] = keys[i+1], keys[i]
				vals[i], vals[i+1] = vals[i+1], vals[i]
				tampered = "swap"
			}
		case 6: // an empty value
			if n >= 1 {
				cp()
				vals[r.Intn(n)] = nil
				tampered = "empty-value"
			}
		case 7: // one more value than keys
			cp()
			vals = append(vals, genValue(r))
			tampered = "count"
		case 8: // an element twice
			if n >= 1 {
				i := r.Intn(n)
				cp()
				keys = append(keys[:i+1], keys[i:]...)
				vals = append(vals[:i+1], vals[i:]...)
				tampered = "twice"
			}
		default: // the key of an element replaced by a neighbouring key that is not in the trie
			if n >= 1 {
				i := r.Intn(n)
				k, ok := incDec(keys[i], r.Bool())
				if _, in := st.contentByTrieKey(keyOf)[string(k)]; ok && !in {
					cp()
					keys[i] = k
					tampered = "key"
				}
			}
		}
	}
	// the edge proofs, in the order Prove puts the nodes
	var pl proofList
	if !nilProof {
		perr := false
		if catch(func() {
			if err := st.t.proveRaw(first, &pl); err != nil {
				perr = true
			}
			if !bytes.Equal(first, last) || scenario == 0 {
				if err := st.t.proveRaw(last, &pl); err != nil {
					perr = true
				}
			}
		}) || perr {
			o.Fail(step, "prove-panic", "Prove failed for a range edge")
		}
	}
	blobs := pl.blobs
	ptamper := ""
	if !nilProof && len(blobs) > 0 && r.Chance(1, 5) {
		i := r.Intn(len(blobs))
		nb := append([][]byte{}, blobs...)
		switch r.Intn(3) {
		case 0:
			nb = append(nb[:i], nb[i+1:]...)
			ptamper = "remove"
		case 1:
			mb := common.CopyBytes(nb[i])
			mb[r.Intn(len(mb))] ^= byte(1 + r.Intn(255))
			nb[i] = mb
			ptamper = "alter"
		default:
			nb[i] = common.CopyBytes(nb[i][:len(nb[i])-1])
			ptamper = "truncate"
		}
		blobs = nb
	}
	check := func(keys, vals [][]byte, blobs [][]byte, tampered, ptamper string) string {
		cls, more := rangeCall(root, first, last, keys, vals, blobs, nilProof)
		o.Count("op.range")
		o.Count(fmt.Sprintf("range.scenario%d.%s", scenario, cls))
		if tampered != "" {
			o.Count("range.tamper." + tampered + "." + cls)
		}
		if ptamper != "" {
			o.Count("range.proof-" + ptamper + "." + cls)
		}
		if cls == "PANIC" {
			if tampered == "" && ptamper == "" && orderly {
				o.Fail(step, "range-panic", "VerifyRangeProof panicked on an honest range")
			} else {
				o.Count("range.panic-on-tampered")
			}
		}
		// direct oracles, stated for tries whose keys all have one length (as the state tries have)
		allL := func(ks [][]byte) bool {
			for _, k := range ks {
				if len(k) != L {
					return false
				}
			}
			return true
		}
		if orderly && allL(keys) && len(first) == L && len(last) == L {
			byKey := st.contentByTrieKey(keyOf)
			// what the accepted statement means
			lo, hi := first, last
			exactOf := func(keys, vals [][]byte) (bool, string) { // do (keys, vals) list exactly the content in [lo, hi]?
				var wk, wv [][]byte
				for _, e := range es {
					if nilProof || (bytes.Compare(e.k, lo) >= 0 && bytes.Compare(e.k, hi) <= 0) {
						wk, wv = append(wk, e.k), append(wv, e.v)
					}
				}
				if len(wk) != len(keys) || len(keys) != len(vals) {
					return false, fmt.Sprintf("%d elements given, %d in the trie in that range", len(keys), len(wk))
				}
				for i := range wk {
					if !bytes.Equal(wk[i], keys[i]) || !bytes.Equal(wv[i], vals[i]) {
						return false, fmt.Sprintf("element %d is %s=%s, the trie has %s=%s", i, hx(keys[i]), hx(vals[i]), hx(wk[i]), hx(wv[i]))
					}
				}
				return true, ""
			}
			exact := func() (bool, string) { return exactOf(keys, vals) }
			// onlyOutside: the stream is the exact content of [lo, hi] plus elements outside [lo, hi]
			onlyOutside := func() (bool, string) {
				if nilProof || len(keys) != len(vals) {
					return false, ""
				}
				var ik, iv [][]byte
				outside := ""
				for i, k := range keys {
					if bytes.Compare(k, lo) >= 0 && bytes.Compare(k, hi) <= 0 {
						ik, iv = append(ik, k), append(iv, vals[i])
					} else {
						outside += " " + hx(k) + "=" + hx(vals[i])
					}
				}
				if outside == "" {
					return false, ""
				}
				ok, _ := exactOf(ik, iv)
				return ok, outside
			}
			rightOf := func(k []byte) bool { // is there content strictly right of k?
				for _, e := range es {
					if bytes.Compare(e.k, k) > 0 {
						return true
					}
				}
				return false
			}
			if strings.HasPrefix(cls, "q:ok") {
				// ORACLE (soundness): an accepted range is exactly the trie's content in that range
				switch {
				case !nilProof && len(keys) == 0:
					for _, e := range es {
						if bytes.Compare(e.k, first) >= 0 {
							o.Fail(step, "range-unsound", fmt.Sprintf("empty range from %s accepted although the trie holds %s", hx(first), hx(e.k)))
							break
						}
					}
				case !nilProof && len(keys) == 1 && bytes.Equal(first, last):
					if !bytes.Equal(byKey[string(first)], vals[0]) || !bytes.Equal(keys[0], first) {
						o.Fail(step, "range-unsound", fmt.Sprintf("single element %s=%s accepted, the trie has %s", hx(keys[0]), hx(vals[0]), hx(byKey[string(first)])))
					}
					if more != rightOf(first) {
						o.Fail(step, "range-more-flag", fmt.Sprintf("single element %s: more=%v", hx(first), more))
					}
				default:
					if ok, why := exact(); !ok {
						if oo, outside := onlyOutside(); oo {
							// (reported apart: the elements INSIDE the range are right, the stream carries
							// more elements left of firstKey / right of lastKey and is accepted all the same)
							o.Fail(step, "range-outside-element", fmt.Sprintf("range-outside-element: range [%s,%s] accepted with element(s) outside the range that the verifier never checked:%s (the trie has %s there)", hx(first), hx(last), outside, describeOutside(byKey, outside)))
						} else {
							o.Fail(step, "range-unsound", fmt.Sprintf("range [%s,%s] accepted (%s %s): %s", hx(first), hx(last), tampered, ptamper, why))
						}
					} else if !nilProof && len(keys) > 0 && more != rightOf(keys[len(keys)-1]) {
						o.Fail(step, "range-more-flag", fmt.Sprintf("range [%s,%s]: more=%v but content right of the last element: %v", hx(first), hx(last), more, !more))
					}
				}
			} else if cls == "PANIC" && ptamper == "" {
				if oo, outside := onlyOutside(); oo {
					o.Fail(step, "range-outside-element", fmt.Sprintf("range-outside-element: range [%s,%s] with element(s) outside the range:%s: the root check passed (they were skipped) and VerifyRangeProof then panicked", hx(first), hx(last), outside))
				}
			} else if cls == "q:e" && tampered == "" && ptamper == "" {
				// ORACLE (completeness): an honest range with its two edge proofs is accepted
				honest := false
				switch scenario {
				case 0:
					honest = bytes.Compare(first, last) < 0 && len(keys) > 0
					if len(keys) == 1 && bytes.Equal(first, last) {
						honest = true
					}
				case 1:
					honest = true
				case 2:
					honest = bytes.Equal(byKey[string(first)], vals[0]) && len(vals[0]) > 0
				default:
					honest = len(es) > 0 // (an empty trie has no root node to prove anything with)
					for _, e := range es {
						if bytes.Compare(e.k, first) >= 0 {
							honest = false
						}
					}
				}
				if honest {
					o.Fail(step, "range-incomplete", fmt.Sprintf("honest range [%s,%s] with %d elements (scenario %d) rejected", hx(first), hx(last), len(keys), scenario))
				}
			}
		}
		o.Op(rangeLine(s, first, last, keys, vals, blobs, nilProof), cls)
		return cls
	}
	cls := check(keys, vals, blobs, tampered, ptamper)
	// the sweep: every single element of an accepted honest range dropped, and altered, in turn -
	// each must be refused (every element of the range is protected by the root)
	if orderly && !nilProof && scenario == 0 && tampered == "" && ptamper == "" && strings.HasPrefix(cls, "q:ok") && len(keys) > 0 && r.Chance(3, 4) {
		o.Count("range.sweep")
		for i := range keys {
			dk := append(append([][]byte{}, keys[:i]...), keys[i+1:]...)
			dv := append(append([][]byte{}, vals[:i]...), vals[i+1:]...)
			check(dk, dv, blobs, "sweep-drop", "")
			av := append([][]byte{}, vals...)
			nv := common.CopyBytes(av[i])
			nv[r.Intn(len(nv))] ^= byte(1 << uint(r.Intn(8)))
			av[i] = nv
			check(keys, av, blobs, "sweep-value", "")
		}
	}
}

func (st *slotState) contentByTrieKey(keyOf func([]byte) []byte) map[string][]byte {
	m := make(map[string][]byte, len(st.content))
	for k, v := range st.content {
		m[string(keyOf([]byte(k)))] = v
	}
	return m
}

// proveRaw: Prove for a key given at trie level (already hashed for the secure trie)
func (t *tr) proveRaw(k []byte, w *proofList) error {
	if t.secure != nil {
		return t.secure.Prove(k, 0, w)
	}
	return t.plain.Prove(k, 0, w)
}

// ---------------------------------------------------------------- node database: references and garbage collection

type gcState struct {
	refs map[common.Hash]int               // roots referenced through Database.Reference
	snap map[common.Hash]map[string][]byte // their content when committed
}

func newGC() *gcState {
	return &gcState{refs: map[common.Hash]int{}, snap: map[common.Hash]map[string][]byte{}}
}

// doGC dereferences a root no slot is based on, or caps the dirty cache, and then checks every root
// that is still referenced.  ORACLE: garbage collection never removes a node of a live root.
func doGC(o *out.Out, r *gen.Rand, step int, db *trie.Database, gc *gcState, slots []*slotState, secure bool, uni [][]byte) {
	based := map[common.Hash]bool{}
	for _, s := range slots {
		based[s.base] = true
	}
	var cands []common.Hash
	for h, n := range gc.refs {
		if n > 0 && !based[h] {
			cands = append(cands, h)
		}
	}
	sort.Slice(cands, func(i, j int) bool { return bytes.Compare(cands[i][:], cands[j][:]) < 0 })
	what := ""
	switch {
	case len(cands) > 0 && r.Chance(4, 5):
		h := cands[r.Intn(len(cands))]
		if catch(func() { db.Dereference(h) }) {
			o.Fail(step, "gc-panic", "Database.Dereference panicked")
		}
		gc.refs[h]--
		what = "dereference"
	case r.Chance(2, 3):
		o.Count("gc.none")
		return
	case r.Bool():
		if catch(func() { db.Cap(0) }) {
			o.Fail(step, "gc-panic", "Database.Cap panicked")
		}
		what = "cap0"
	default:
		sz, _ := db.Size()
		if catch(func() { db.Cap(sz / 2) }) {
			o.Fail(step, "gc-panic", "Database.Cap panicked")
		}
		what = "cap-half"
	}
	o.Count("gc." + what)
	var live []common.Hash
	for h, n := range gc.refs {
		if n > 0 {
			live = append(live, h)
		}
	}
	sort.Slice(live, func(i, j int) bool { return bytes.Compare(live[i][:], live[j][:]) < 0 })
	for _, h := range live {
		var t *tr
		var err error
		if catch(func() { t, err = openTrie(secure, h, db) }) || err != nil {
			o.Fail(step, "gc-lost-node", fmt.Sprintf("after %s the referenced root %x cannot be opened", what, h))
			continue
		}
		for _, k := range uni {
			var v []byte
			var gerr error
			if catch(func() { v, gerr = t.get(k) }) || gerr != nil {
				o.Fail(step, "gc-lost-node", fmt.Sprintf("after %s the referenced root %x lost the node for key %s", what, h, hx(k)))
				break
			}
			if !bytes.Equal(v, gc.snap[h][string(k)]) {
				o.Fail(step, "gc-content", fmt.Sprintf("after %s root %x returns %s for key %s, committed %s", what, h, hx(v), hx(k), hx(gc.snap[h][string(k)])))
				break
			}
		}
	}
}

// ---------------------------------------------------------------- stack trie: Commit with a writer, (un)marshalling

func stackExtras(o *out.Out, r *gen.Rand, kvs []kv, h common.Hash) {
	// ORACLE: StackTrie.Commit returns the same root and the nodes it hands to its writer form a
	// trie that, opened by that root, holds exactly the inserted data
	disk := memorydb.New()
	var root common.Hash
	var cerr error
	if catch(func() {
		st := trie.NewStackTrie(func(owner common.Hash, path []byte, hash common.Hash, blob []byte) {
			rawdb.WriteLegacyTrieNode(disk, hash, common.CopyBytes(blob))
		})
		for _, e := range kvs {
			st.Update(e.k, common.CopyBytes(e.v))
		}
		root, cerr = st.Commit()
	}) {
		o.Fail(0, "stack-commit", "StackTrie with a node writer panicked")
		return
	}
	if cerr != nil || root != h {
		o.Fail(0, "stack-commit", fmt.Sprintf("StackTrie.Commit returns %x (err %v), Hash returned %x", root, cerr, h))
		return
	}
	if len(kvs) > 0 {
		t, err := trie.New(trie.TrieID(root), trie.NewDatabase(disk))
		if err != nil {
			o.Fail(0, "stack-commit", fmt.Sprintf("the committed stack trie cannot be opened by its root %x: %v", root, err))
			return
		}
		for _, e := range kvs {
			var v []byte
			var gerr error
			if catch(func() { v, gerr = t.Get(e.k) }) || gerr != nil || !bytes.Equal(v, e.v) {
				o.Fail(0, "stack-commit", fmt.Sprintf("committed stack trie: key %s reads %s (err %v), inserted %s", hx(e.k), hx(v), gerr, hx(e.v)))
				return
			}
		}
		if got := t.Hash(); got != h {
			o.Fail(0, "stack-commit", fmt.Sprintf("committed stack trie reopened hashes to %x, want %x", got, h))
		}
	}
	o.Count("stack.commit")
	// ORACLE: a stack trie serialised in the middle of the stream and restored continues to the same root
	if len(kvs) > 0 {
		cut := r.Intn(len(kvs) + 1)
		var h2 common.Hash
		var merr error
		if catch(func() {
			st := trie.NewStackTrie(nil)
			for _, e := range kvs[:cut] {
				st.Update(e.k, common.CopyBytes(e.v))
			}
			var data []byte
			data, merr = st.MarshalBinary()
			if merr != nil {
				return
			}
			var st2 *trie.StackTrie
			st2, merr = trie.NewFromBinary(data, nil)
			if merr != nil {
				return
			}
			for _, e := range kvs[cut:] {
				st2.Update(e.k, common.CopyBytes(e.v))
			}
			h2 = st2.Hash()
		}) {
			o.Fail(0, "stack-marshal", fmt.Sprintf("StackTrie marshal/unmarshal after %d of %d updates panicked", cut, len(kvs)))
		} else if merr != nil || h2 != h {
			o.Fail(0, "stack-marshal", fmt.Sprintf("StackTrie restored after %d of %d updates: root %x (err %v), want %x", cut, len(kvs), h2, merr, h))
		}
		o.Count("stack.marshal")
	}
}

// ---------------------------------------------------------------- embedding-threshold family

// thresholdUniverse: keys of one length L whose leaves hang directly under a top-level branch (distinct
// first nibbles) plus one pair sharing all but the last nibble (a tiny branch under an extension)
func thresholdUniverse(r *gen.Rand) ([][]byte, int) {
	L := 1 + r.Intn(3)
	seen := map[string]bool{}
	var ks [][]byte
	add := func(k []byte) {
		if !seen[string(k)] {
			seen[string(k)] = true
			ks = append(ks, k)
		}
	}
	n := 2 + r.Intn(5)
	for i := 0; i < n; i++ {
		k := r.Bytes(L)
		k[0] = byte(i<<4) | k[0]&15
		add(k)
	}
	if r.Bool() {
		k := common.CopyBytes(ks[0])
		k[L-1] ^= 1 + byte(r.Intn(15))
		add(k)
	}
	return ks, L
}

// thresholdValue: value lengths that put a leaf with 2L-1 remaining nibbles (or a tiny branch of such
// leaves) right at the "encoding shorter than 32 bytes is embedded" rule
func thresholdValue(r *gen.Rand, L int) []byte {
	rc := 1 + L // rlp(compact key): one byte for L = 1 (0x3N < 0x80)
	if L == 1 {
		rc = 1
	}
	switch r.Pick(5, 3, 1) {
	case 0:
		T := 29 + r.Intn(6) // total leaf encoding 29..34
		v := T - 2 - rc
		if v < 1 {
			v = 1
		}
		return r.Bytes(v)
	case 1:
		return r.Bytes(1 + r.Intn(7))
	default:
		return genValue(r)
	}
}

// edgeNibbleUniverse: keys of one length over the nibbles {0, 1, e, f}: branches whose first and last
// child slots (0, 15) are occupied - the boundary values of every "for i := ...; i < 16" loop over the
// children in proof.go, iterator.go and committer.go
func edgeNibbleUniverse(r *gen.Rand) [][]byte {
	L := 1 + r.Intn(3)
	nib := [][]byte{{0x0, 0xf}, {0x0, 0xf, 0x1, 0xe}, {0x0, 0xf, 0xf, 0x1, 0xe, 0x0}}[r.Intn(3)] // {0,f} alone: dense
	seen := map[string]bool{}
	var ks [][]byte
	n := 3 + r.Intn(9)
	for i := 0; i < 3*n && len(ks) < n; i++ {
		k := make([]byte, L)
		for j := range k {
			k[j] = nib[r.Intn(len(nib))]<<4 | nib[r.Intn(len(nib))]
		}
		if !seen[string(k)] {
			seen[string(k)] = true
			ks = append(ks, k)
		}
	}
	return ks
}

func describeOutside(byKey map[string][]byte, outside string) string {
	var ds []string
	for _, kv := range strings.Fields(outside) {
		k := strings.SplitN(kv, "=", 2)[0]
		var kb []byte
		if k != "-" {
			kb = common.FromHex(k)
		}
		ds = append(ds, k+"="+hx(byKey[string(kb)]))
	}
	return strings.Join(ds, " ")
}

// runBulk: at least 100 updates / deletes without an intermediate Hash, so that Trie.Hash takes the
// parallel branch of hasher.hashFullNodeChildren (16 goroutines over the root's children); the key
// bytes cover every first nibble 0..f
func runBulk(o *out.Out, r *gen.Rand, c int) {
	o.Case(c, fmt.Sprintf("CASE %d K", c))
	n := 100 + r.Intn(60)
	L := 1 + r.Intn(2)
	content := map[string][]byte{}
	var root common.Hash
	pan := catch(func() {
		t := trie.NewEmpty(trie.NewDatabase(memorydb.New()))
		for i := 0; i < n; i++ {
			k := r.Bytes(L)
			if i < 16 {
				k[0] = byte(i<<4) | k[0]&15
			}
			if r.Chance(1, 8) && len(content) > 0 {
				t.Delete(k)
				delete(content, string(k))
				continue
			}
			v := genValue(r)
			t.Update(k, common.CopyBytes(v))
			content[string(k)] = v
		}
		root = t.Hash()
	})
	id := func(k []byte) []byte { return k }
	obs := "PANIC"
	if pan {
		o.Fail(0, "hash-panic", "Update / Delete / Hash panicked in a bulk run")
	} else {
		obs = fmt.Sprintf("b:%x", root)
		// ORACLE: the root after >= 100 unhashed changes (parallel hashing) is the root of the content
		if g := gethRoot(content, id); g != root {
			o.Fail(0, "root-vs-reference", fmt.Sprintf("bulk run (%d changes, parallel hashing): root %x, go-ethereum root %x", n, root, g))
		}
		if f := freshRoot(r, content, id); f != root {
			o.Fail(0, "root-order-dependent", fmt.Sprintf("bulk run (%d changes): root %x, fresh trie in another order %x", n, root, f))
		}
	}
	keys := make([]string, 0, len(content))
	for k := range content {
		keys = append(keys, k)
	}
	sort.Strings(keys)
	line := "B"
	for _, k := range keys {
		line += " " + hx([]byte(k)) + "=" + hx(content[k])
	}
	o.Count("bulk")
	o.Op(line, obs)
	o.Mark(fmt.Sprintf("K/%d/%d", L, len(content)/8))
}
