// C07 harness: drives the real trie.Trie / trie.StateTrie / trie.StackTrie / types.DeriveSha /
// Trie.Prove / trie.VerifyProof of /repo with generated histories, prints the projected
// observables for the model driver, and evaluates the property directly on the implementation:
//   - a plain Go map is the reference content (Get must return the last value written),
//   - the root must equal the root of a fresh trie built from the content in another order,
//     and the root computed by go-ethereum v1.9.15's independent trie implementation,
//   - a trie reopened from the database by root hash has the same content and root,
//   - a proof verifies to exactly the stored value / absence, and no tampered proof (blob
//     removed or altered; database keys recomputed by the verifier) verifies to anything else,
//   - the stack trie and DeriveSha give the ordinary trie's root for sorted prefix-free data.
package main

import (
	"bytes"
	"encoding/hex"
	"fmt"
	"sort"
	"strings"

	gcommon "github.com/ethereum/go-ethereum/common"
	gmemdb "github.com/ethereum/go-ethereum/ethdb/memorydb"
	grlp "github.com/ethereum/go-ethereum/rlp"
	gtrie "github.com/ethereum/go-ethereum/trie"

	"github.com/kardiachain/go-kardia/kai/kaidb/memorydb"
	"github.com/kardiachain/go-kardia/lib/common"
	"github.com/kardiachain/go-kardia/lib/crypto"
	"github.com/kardiachain/go-kardia/lib/rlp"
	"github.com/kardiachain/go-kardia/trie"
	"github.com/kardiachain/go-kardia/trie/trienode"
	"github.com/kardiachain/go-kardia/types"

	"verif/harness/internal/gen"
	"verif/harness/internal/out"
)

func hx(b []byte) string {
	if len(b) == 0 {
		return "-"
	}
	return hex.EncodeToString(b)
}

func catch(f func()) (panicked bool) {
	defer func() {
		if e := recover(); e != nil {
			panicked = true
		}
	}()
	f()
	return false
}

// ---------------------------------------------------------------- the trie under test (plain or secure)

type tr struct {
	plain  *trie.Trie
	secure *trie.StateTrie
}

func hashKey(k []byte) []byte { return crypto.Keccak256(k) }

func (t *tr) update(k, v []byte) error {
	if t.secure != nil {
		t.secure.MustUpdate(k, v)
		return nil
	}
	return t.plain.Update(k, v)
}
func (t *tr) delete(k []byte) error {
	if t.secure != nil {
		t.secure.MustDelete(k)
		return nil
	}
	return t.plain.Delete(k)
}
func (t *tr) get(k []byte) ([]byte, error) {
	if t.secure != nil {
		return t.secure.MustGet(k), nil
	}
	return t.plain.Get(k)
}
func (t *tr) hash() common.Hash {
	if t.secure != nil {
		return t.secure.Hash()
	}
	return t.plain.Hash()
}
func (t *tr) commit() (common.Hash, *trienode.NodeSet) {
	if t.secure != nil {
		return t.secure.Commit(false)
	}
	return t.plain.Commit(false)
}
func (t *tr) copy() *tr {
	if t.secure != nil {
		return &tr{secure: t.secure.Copy()}
	}
	return &tr{plain: t.plain.Copy()}
}
func (t *tr) prove(k []byte, w *proofList) error {
	if t.secure != nil {
		return t.secure.Prove(hashKey(k), 0, w)
	}
	return t.plain.Prove(k, 0, w)
}

func openTrie(secure bool, root common.Hash, db *trie.Database) (*tr, error) {
	if secure {
		s, err := trie.NewStateTrie(trie.TrieID(root), db)
		if err != nil {
			return nil, err
		}
		return &tr{secure: s}, nil
	}
	p, err := trie.New(trie.TrieID(root), db)
	if err != nil {
		return nil, err
	}
	return &tr{plain: p}, nil
}

// proofList records the proof nodes in the order Prove puts them.
type proofList struct{ blobs [][]byte }

func (p *proofList) Put(key []byte, value []byte) error {
	p.blobs = append(p.blobs, common.CopyBytes(value))
	return nil
}
func (p *proofList) Delete(key []byte) error { return nil }

// proofDB is what a verifier builds from a list of blobs: keys are recomputed by hashing.
func proofDB(blobs [][]byte) *memorydb.Database {
	db := memorydb.New()
	for _, b := range blobs {
		db.Put(crypto.Keccak256(b), b)
	}
	return db
}

func verifyClass(root common.Hash, key []byte, db *memorydb.Database) (string, []byte, bool) {
	var val []byte
	var err error
	if catch(func() { val, err = trie.VerifyProof(root, key, db) }) {
		return "PANIC", nil, true
	}
	if err != nil {
		return "e", nil, false
	}
	if len(val) == 0 {
		return "a", nil, false
	}
	return "v:" + hx(val), val, false
}

// ---------------------------------------------------------------- independent proof verifier
//
// A second implementation of proof verification, written against go-ethereum's rlp package and
// the node rules of the yellow paper / trie/node.go's own comments: a node is a list of 2 or 17
// items; a child reference is the empty string, a 32-byte hash, or an embedded node whose whole
// encoding is "smaller than a hash"; the key of a 2-item node is hex-prefix encoded.  Two
// leniencies of today's decoder are accepted here too and only counted (reported separately):
// an embedded node of exactly 32 bytes, and hex-prefix flag nibbles above 3.

type refNode struct {
	kind     int // 0 nil, 1 value, 2 hash, 3 short, 4 full
	key      []byte
	val      []byte
	child    *refNode
	children [17]*refNode
}

type refStats struct{ emb32, oddFlag bool }

func refCompactToHex(c []byte, st *refStats) []byte {
	if len(c) == 0 {
		return nil
	}
	flag := c[0] >> 4
	if flag > 3 || (flag&1 == 0 && c[0]&15 != 0) {
		st.oddFlag = true
	}
	var nib []byte
	if flag&1 == 1 {
		nib = append(nib, c[0]&15)
	}
	for _, b := range c[1:] {
		nib = append(nib, b>>4, b&15)
	}
	if flag >= 2 {
		nib = append(nib, 16)
	}
	return nib
}

func refDecodeRef(buf []byte, st *refStats) (*refNode, []byte, bool) {
	kind, val, rest, err := grlp.Split(buf)
	if err != nil {
		return nil, nil, false
	}
	switch {
	case kind == grlp.List:
		size := len(buf) - len(rest)
		if size > 32 {
			return nil, nil, false
		}
		if size == 32 {
			st.emb32 = true
		}
		n, ok := refDecodeNode(buf[:size], st)
		return n, rest, ok
	case kind == grlp.String && len(val) == 0:
		return &refNode{kind: 0}, rest, true
	case kind == grlp.String && len(val) == 32:
		return &refNode{kind: 2, val: val}, rest, true
	}
	return nil, nil, false
}

func refDecodeNode(buf []byte, st *refStats) (*refNode, bool) {
	if len(buf) == 0 {
		return nil, false
	}
	elems, _, err := grlp.SplitList(buf)
	if err != nil {
		return nil, false
	}
	c, err := grlp.CountValues(elems)
	if err != nil {
		return nil, false
	}
	switch c {
	case 2:
		kbuf, rest, err := grlp.SplitString(elems)
		if err != nil {
			return nil, false
		}
		key := refCompactToHex(kbuf, st)
		if len(key) > 0 && key[len(key)-1] == 16 {
			v, _, err := grlp.SplitString(rest)
			if err != nil {
				return nil, false
			}
			return &refNode{kind: 3, key: key, child: &refNode{kind: 1, val: v}}, true
		}
		ch, _, ok := refDecodeRef(rest, st)
		if !ok {
			return nil, false
		}
		return &refNode{kind: 3, key: key, child: ch}, true
	case 17:
		n := &refNode{kind: 4}
		for i := 0; i < 16; i++ {
			ch, rest, ok := refDecodeRef(elems, st)
			if !ok {
				return nil, false
			}
			n.children[i], elems = ch, rest
		}
		v, _, err := grlp.SplitString(elems)
		if err != nil {
			return nil, false
		}
		if len(v) > 0 {
			n.children[16] = &refNode{kind: 1, val: v}
		} else {
			n.children[16] = &refNode{kind: 0}
		}
		return n, true
	}
	return nil, false
}

// refVerify: class "v:<hex>", "a" (absent) or "e" (invalid proof)
func refVerify(root []byte, key []byte, lookup func([]byte) []byte, st *refStats) string {
	var nib []byte
	for _, b := range key {
		nib = append(nib, b>>4, b&15)
	}
	nib = append(nib, 16)
	want := root
	for steps := 0; steps < 1000; steps++ {
		buf := lookup(want)
		if len(buf) == 0 {
			return "e"
		}
		n, ok := refDecodeNode(buf, st)
		if !ok {
			return "e"
		}
	walk:
		for {
			switch n.kind {
			case 0:
				return "a"
			case 1:
				if len(n.val) == 0 {
					return "a"
				}
				return "v:" + hx(n.val)
			case 2:
				want = n.val
				break walk
			case 3:
				if len(nib) < len(n.key) || !bytes.Equal(n.key, nib[:len(n.key)]) {
					return "a"
				}
				nib = nib[len(n.key):]
				n = n.child
			case 4:
				if len(nib) == 0 {
					return "e"
				}
				c := n.children[nib[0]]
				nib = nib[1:]
				n = c
			}
		}
	}
	return "e"
}

// checkAgainstRef: ORACLE — the implementation's verifier and the independent one agree on every
// proof, valid or not (a disagreement means VerifyProof accepted or rejected a node encoding
// differently from the node rules, e.g. an oversized embedded node the hasher can never produce)
func checkAgainstRef(o *out.Out, step int, desc string, cls string, root common.Hash, key []byte, lookup func([]byte) []byte) {
	if cls == "PANIC" {
		return
	}
	var st refStats
	ref := refVerify(root[:], key, lookup, &st)
	if ref != cls {
		o.Fail(step, "verify-vs-reference", fmt.Sprintf("%s: VerifyProof answers %s, the independent verifier (go-ethereum rlp, yellow-paper node rules) answers %s", desc, cls, ref))
	}
	if ref != "e" && st.emb32 {
		o.Count("lenient.embedded-node-of-32-bytes-accepted")
	}
	if ref != "e" && st.oddFlag {
		o.Count("lenient.hex-prefix-flag-above-3-accepted")
	}
}

func lookupBlobs(blobs [][]byte) func([]byte) []byte {
	m := map[string][]byte{}
	for _, b := range blobs {
		m[string(crypto.Keccak256(b))] = b
	}
	return func(h []byte) []byte { return m[string(h)] }
}

// ---------------------------------------------------------------- independent reference roots

func gethRoot(content map[string][]byte, keyOf func([]byte) []byte) common.Hash {
	t, _ := gtrie.New(gcommon.Hash{}, gtrie.NewDatabase(gmemdb.New()))
	for k, v := range content {
		t.Update(keyOf([]byte(k)), v)
	}
	return common.Hash(t.Hash())
}

func freshRoot(r *gen.Rand, content map[string][]byte, keyOf func([]byte) []byte) common.Hash {
	keys := make([]string, 0, len(content))
	for k := range content {
		keys = append(keys, k)
	}
	sort.Strings(keys)
	perm := r.Perm(len(keys))
	t := trie.NewEmpty(trie.NewDatabase(memorydb.New()))
	for _, i := range perm {
		t.Update(keyOf([]byte(keys[i])), content[keys[i]])
	}
	return t.Hash()
}

// ---------------------------------------------------------------- generators

func genValue(r *gen.Rand) []byte {
	switch r.Pick(3, 2, 2, 3, 4, 2, 3, 1) {
	case 0: // short
		return r.Bytes(1 + r.Intn(4))
	case 1: // single byte below 0x80 (RLP single-byte form)
		return []byte{byte(r.Intn(128))}
	case 2: // single byte >= 0x80
		return []byte{byte(128 + r.Intn(128))}
	case 3: // medium
		return r.Bytes(5 + r.Intn(18))
	case 4: // around the embedding threshold of a leaf
		return r.Bytes(23 + r.Intn(10))
	case 5: // exactly 32
		return r.Bytes(32)
	case 6: // long
		return r.Bytes(33 + r.Intn(40))
	default: // RLP long-string form (>= 56)
		return r.Bytes(56 + r.Intn(30))
	}
}

var alpha = []byte{0x00, 0x01, 0x10, 0x11, 0x12, 0x1f, 0xf0, 0xff, 0x80, 0x7f}

func genUniverse(r *gen.Rand, fam int) [][]byte {
	n := 2 + r.Intn(10)
	seen := map[string]bool{}
	var ks [][]byte
	add := func(k []byte) {
		if !seen[string(k)] {
			seen[string(k)] = true
			ks = append(ks, k)
		}
	}
	switch fam {
	case 0: // lengths 0..4 over a small alphabet, prefixes of each other included
		a := 2 + r.Intn(4)
		for i := 0; i < n*2 && len(ks) < n; i++ {
			l := r.Intn(5)
			k := make([]byte, l)
			for j := range k {
				k[j] = alpha[r.Intn(a)]
			}
			add(k)
			if r.Chance(1, 3) && l > 0 {
				add(append([]byte{}, k[:r.Intn(l)]...))
			}
		}
	case 1: // fixed length 1..3, dense nibble alphabet
		l := 1 + r.Intn(3)
		for i := 0; i < n*2 && len(ks) < n; i++ {
			k := make([]byte, l)
			for j := range k {
				k[j] = byte(r.Intn(2)<<4 | r.Intn(3))
			}
			add(k)
		}
	case 2: // long shared prefix, lengths up to 8, diverging late
		p := r.Bytes(1 + r.Intn(5))
		for i := 0; i < n*2 && len(ks) < n; i++ {
			k := append([]byte{}, p[:r.Intn(len(p)+1)]...)
			ext := r.Intn(9 - len(k))
			for j := 0; j < ext; j++ {
				k = append(k, alpha[r.Intn(len(alpha))])
			}
			add(k)
		}
	case 3: // the four keys over the two-nibble alphabet {0,1}
		for _, b := range []byte{0x00, 0x01, 0x10, 0x11} {
			add([]byte{b})
		}
	default: // arbitrary (used with the secure trie: hashed to 32 bytes)
		for i := 0; i < n; i++ {
			add(r.Bytes(r.Intn(9)))
		}
	}
	if len(ks) == 0 {
		add([]byte{0x01})
	}
	return ks
}

// ---------------------------------------------------------------- one history

const nslots = 3

type slotState struct {
	t       *tr
	content map[string][]byte
	base    common.Hash // the committed root whose nodes the slot's trie may still reference
}

func copyContent(m map[string][]byte) map[string][]byte {
	c := make(map[string][]byte, len(m))
	for k, v := range m {
		c[k] = v
	}
	return c
}

func runHistory(o *out.Out, r *gen.Rand, c int) {
	secure := r.Chance(1, 6)
	fam := r.Pick(5, 3, 4, 2, 0, 3, 4)
	if secure {
		fam = 4
	}
	var uni [][]byte
	thrL := 0
	if fam == 5 {
		uni, thrL = thresholdUniverse(r)
	} else if fam == 6 {
		uni = edgeNibbleUniverse(r)
	} else {
		uni = genUniverse(r, fam)
	}
	sec := 0
	if secure {
		sec = 1
	}
	keyOf := func(k []byte) []byte { return k }
	if secure {
		keyOf = hashKey
	}
	o.Case(c, fmt.Sprintf("CASE %d H %d %d", c, nslots, sec))
	pl := "PROBE"
	for _, k := range uni {
		pl += " " + hx(k)
	}
	o.InOnly(pl)
	o.Count(fmt.Sprintf("history.fam%d", fam))
	if secure {
		o.Count("history.secure")
	}

	disk := memorydb.New()
	db := trie.NewDatabase(disk)
	slots := make([]*slotState, nslots)
	for i := range slots {
		t, err := openTrie(secure, types.EmptyRootHash, db)
		if err != nil {
			panic(err)
		}
		slots[i] = &slotState{t: t, content: map[string][]byte{}}
	}
	gc := newGC()
	nops := 3 + r.Intn(38)
	if *out.Tier == "thorough" && r.Chance(1, 4) {
		nops = 20 + r.Intn(41)
	}
	sig := ""
	// observation of a slot, taken on a copy so that the slot's own caches are not disturbed
	observe := func(step int, s int) string {
		st := slots[s]
		cp := st.t.copy()
		var root common.Hash
		if catch(func() { root = cp.hash() }) {
			o.Fail(step, "hash-panic", "Hash panicked")
			return "h=PANIC"
		}
		gs := make([]string, len(uni))
		for i, k := range uni {
			var v []byte
			var err error
			if catch(func() { v, err = cp.get(k) }) {
				gs[i] = "PANIC"
				o.Fail(step, "get-panic", "Get panicked for key "+hx(k))
				continue
			}
			if err != nil {
				gs[i] = "!"
				o.Fail(step, "missing-node", "Get returned an error for key "+hx(k)+": database lost a node")
				continue
			}
			gs[i] = hx(v)
			// ORACLE: authenticated *map*: last value written, absent if deleted/empty
			if !bytes.Equal(v, st.content[string(k)]) {
				o.Fail(step, "get-mismatch", fmt.Sprintf("key %s: trie returns %s, last value written %s", hx(k), hx(v), hx(st.content[string(k)])))
			}
		}
		// ORACLE: root is a function of the content alone
		if g := gethRoot(st.content, keyOf); g != root {
			o.Fail(step, "root-vs-reference", fmt.Sprintf("root %x differs from go-ethereum v1.9.15 root %x for the same content", root, g))
		}
		if f := freshRoot(r, st.content, keyOf); f != root {
			o.Fail(step, "root-order-dependent", fmt.Sprintf("root %x differs from root %x of a fresh trie with the same content inserted in another order", root, f))
		}
		return fmt.Sprintf("h=%x g=%s", root, strings.Join(gs, ","))
	}
	doCommit := func(step int, s int) (common.Hash, bool) {
		st := slots[s]
		var root common.Hash
		var nodes *trienode.NodeSet
		if catch(func() { root, nodes = st.t.commit() }) {
			o.Fail(step, "commit-panic", "Commit panicked")
			return root, false
		}
		if nodes != nil {
			var err error
			if catch(func() { err = db.Update(root, types.EmptyRootHash, trienode.NewWithNodeSet(nodes)) }) {
				o.Fail(step, "db-update-panic", "Database.Update panicked on the node set returned by Commit")
				return root, false
			}
			if err != nil {
				o.Fail(step, "db-update", err.Error())
			}
			if root != types.EmptyRootHash {
				// the committed root is held through the reference counter of the node database
				if catch(func() { db.Reference(root, common.Hash{}) }) {
					o.Fail(step, "db-update-panic", "Database.Reference panicked")
				}
				gc.refs[root]++
				gc.snap[root] = copyContent(st.content)
			}
		}
		if root != types.EmptyRootHash {
			st.base = root
		}
		if r.Chance(1, 3) {
			// flush to the disk layer: later reads come from disk / clean cache
			var err error
			if catch(func() { err = db.Commit(root, false) }) {
				o.Fail(step, "db-commit-panic", "Database.Commit panicked")
				return root, false
			}
			if err != nil {
				o.Fail(step, "db-commit", err.Error())
			}
			o.Count("db.flush")
		}
		return root, true
	}

	for step := 0; step < nops; step++ {
		s := r.Pick(6, 2, 1)
		st := slots[s]
		k := uni[r.Intn(len(uni))]
		if r.Chance(1, 14) {
			// garbage collection in the node database (no observable of its own: every later
			// observation of every slot and the check of all referenced roots are the oracles)
			doGC(o, r, step, db, gc, slots, secure, uni)
		}
		wRange := 9
		if fam == 6 {
			wRange = 30 // the family made for the child-index boundaries of the range-proof code
		}
		switch r.Pick(40, 12, 6, 8, 7, 7, 4, 12, 7, wRange) {
		case 0: // Update
			v := genValue(r)
			if fam == 5 && r.Chance(3, 4) {
				v = thresholdValue(r, thrL)
			}
			if r.Chance(1, 12) {
				v = nil // empty value deletes
			}
			if r.Chance(1, 8) {
				if old, ok := st.content[string(k)]; ok {
					v = old // same value again: not dirty
				}
			}
			var err error
			res := "ok"
			if catch(func() { err = st.t.update(k, common.CopyBytes(v)) }) {
				res = "PANIC"
				o.Fail(step, "update-panic", "Update panicked")
			} else if err != nil {
				res = "missing"
				o.Fail(step, "missing-node", "Update: "+err.Error())
			} else if len(v) == 0 {
				delete(st.content, string(k))
			} else {
				st.content[string(k)] = v
			}
			o.Count("op.update")
			sig += "U"
			o.Op(fmt.Sprintf("U %d %s %s", s, hx(k), hx(v)), res+" "+observe(step, s))
		case 1: // Delete
			var err error
			res := "ok"
			if catch(func() { err = st.t.delete(k) }) {
				res = "PANIC"
				o.Fail(step, "delete-panic", "Delete panicked")
			} else if err != nil {
				res = "missing"
				o.Fail(step, "missing-node", "Delete: "+err.Error())
			} else {
				delete(st.content, string(k))
			}
			o.Count("op.delete")
			sig += "D"
			o.Op(fmt.Sprintf("D %d %s", s, hx(k)), res+" "+observe(step, s))
		case 2: // Get on the live trie (may resolve nodes and replace the root)
			var v []byte
			var err error
			res := ""
			if catch(func() { v, err = st.t.get(k) }) {
				res = "PANIC"
				o.Fail(step, "get-panic", "Get panicked")
			} else if err != nil {
				res = "missing"
				o.Fail(step, "missing-node", "Get: "+err.Error())
			} else {
				res = "v:" + hx(v)
				if !bytes.Equal(v, st.content[string(k)]) {
					o.Fail(step, "get-mismatch", fmt.Sprintf("key %s: trie returns %s, last value written %s", hx(k), hx(v), hx(st.content[string(k)])))
				}
			}
			o.Count("op.get")
			sig += "G"
			o.Op(fmt.Sprintf("G %d %s", s, hx(k)), res+" "+observe(step, s))
		case 3: // Hash on the live trie (fills the caches)
			var h common.Hash
			res := ""
			if catch(func() { h = st.t.hash() }) {
				res = "PANIC"
				o.Fail(step, "hash-panic", "Hash panicked")
			} else {
				res = fmt.Sprintf("r:%x", h)
			}
			o.Count("op.hash")
			sig += "H"
			o.Op(fmt.Sprintf("H %d", s), res+" "+observe(step, s))
		case 4: // Commit + Database.Update; the trie is used further (root is now a hash node)
			h, ok := doCommit(step, s)
			res := "PANIC"
			if ok {
				res = fmt.Sprintf("r:%x", h)
			}
			o.Count("op.commit")
			sig += "C"
			o.Op(fmt.Sprintf("C %d", s), res+" "+observe(step, s))
		case 5: // commit and reopen from the database by root hash into another slot
			d := r.Intn(nslots)
			h, ok := doCommit(step, s)
			res := "PANIC"
			if ok {
				var nt *tr
				var err error
				if catch(func() { nt, err = openTrie(secure, h, db) }) {
					res = "PANIC"
					o.Fail(step, "reopen-panic", "trie.New panicked on a committed root")
				} else if err != nil {
					res = "missing"
					o.Fail(step, "reopen-missing", "trie.New on a committed root: "+err.Error())
				} else {
					res = fmt.Sprintf("r:%x", h)
					slots[d] = &slotState{t: nt, content: copyContent(st.content), base: st.base}
				}
			}
			o.Count("op.reopen")
			sig += "R"
			obs := observe(step, d)
			// ORACLE: reopened trie has the committed root
			if ok && !strings.HasPrefix(obs, fmt.Sprintf("h=%x", h)) {
				o.Fail(step, "reopen-root", "reopened trie does not hash to the root it was opened with")
			}
			o.Op(fmt.Sprintf("R %d %d", s, d), res+" "+obs)
		case 6: // Copy
			d := r.Intn(nslots)
			if d != s {
				slots[d] = &slotState{t: st.t.copy(), content: copyContent(st.content), base: st.base}
			}
			o.Count("op.copy")
			sig += "Y"
			o.Op(fmt.Sprintf("Y %d %d", s, d), "ok "+observe(step, d))
		case 7: // Prove / VerifyProof / tampering
			doProof(o, r, step, s, st, k, keyOf)
			sig += "P"
		case 8: // iterate the leaves from a start key (NodeIterator hashes the live trie first)
			io := strings.SplitN(doIter(o, r, step, s, st, uni, keyOf), "\x00", 2)
			sig += "I"
			o.Op(io[0], io[1]+" "+observe(step, s))
		case 9: // range proof over the content between two edge keys
			doRange(o, r, step, s, st, uni, keyOf)
			sig += "Q"
		}
	}
	// final: fresh build from the content (the model prints the root of its canonical constructor)
	st := slots[0]
	keys := make([]string, 0, len(st.content))
	for k := range st.content {
		keys = append(keys, k)
	}
	sort.Strings(keys)
	line := "B"
	for _, k := range keys {
		line += " " + hx(keyOf([]byte(k))) + "=" + hx(st.content[k])
	}
	o.Op(line, fmt.Sprintf("b:%x", freshRoot(r, st.content, keyOf)))
	if len(sig) > 24 {
		sig = sig[:24]
	}
	o.Mark(fmt.Sprintf("H/%d/%d/%s", fam, len(uni), sig))
}

func doProof(o *out.Out, r *gen.Rand, step int, s int, st *slotState, k []byte, keyOf func([]byte) []byte) {
	pk := keyOf(k) // the key as the trie sees it (StateTrie.Prove takes the hashed key)
	var pl proofList
	var err error
	in := fmt.Sprintf("P %d %s", s, hx(k))
	if catch(func() { err = st.t.prove(k, &pl) }) {
		o.Fail(step, "prove-panic", "Prove panicked")
		o.Op(in, "PANIC")
		return
	}
	if err != nil {
		o.Fail(step, "missing-node", "Prove: "+err.Error())
		o.Op(in, "missing")
		return
	}
	root := st.t.copy().hash()
	bl := make([]string, len(pl.blobs))
	for i, b := range pl.blobs {
		bl[i] = hx(b)
	}
	want := st.content[string(k)]
	cls, val, pan := verifyClass(root, pk, proofDB(pl.blobs))
	if pan {
		o.Fail(step, "verify-panic", "VerifyProof panicked on an honest proof")
	}
	// ORACLE: completeness — the proof yields exactly the stored value / absence
	if len(st.content) > 0 || len(pl.blobs) > 0 {
		if len(want) == 0 && cls != "a" {
			o.Fail(step, "proof-incomplete", fmt.Sprintf("absent key %s: honest proof verifies to %s", hx(k), cls))
		}
		if len(want) != 0 && !bytes.Equal(val, want) {
			o.Fail(step, "proof-incomplete", fmt.Sprintf("key %s: honest proof verifies to %s, stored %s", hx(k), cls, hx(want)))
		}
	}
	obs := "p:" + strings.Join(bl, ",") + " " + cls
	if len(want) == 0 {
		o.Count("op.prove.absent")
	} else {
		o.Count("op.prove.present")
	}
	// tampering: remove each node; alter bytes of each node; truncate; swap in another key's proof node
	check := func(desc string, blobs [][]byte) string {
		c2, v2, p2 := verifyClass(root, pk, proofDB(blobs))
		if p2 {
			o.Fail(step, "verify-panic", "VerifyProof panicked on tampered proof "+desc)
		}
		checkAgainstRef(o, step, "tampered proof "+desc, c2, root, pk, lookupBlobs(blobs))
		// ORACLE: soundness — a tampered proof never yields a different answer
		if c2 != "e" && c2 != "PANIC" {
			if (len(want) == 0) != (c2 == "a") || (len(want) != 0 && !bytes.Equal(v2, want)) {
				o.Fail(step, "proof-unsound", fmt.Sprintf("key %s stored %s: tampered proof (%s) verifies to %s", hx(k), hx(want), desc, c2))
			}
		}
		o.Count("tamper." + c2[:1])
		return c2
	}
	for i := range pl.blobs {
		// removal
		var rm [][]byte
		for j, b := range pl.blobs {
			if j != i {
				rm = append(rm, b)
			}
		}
		in += fmt.Sprintf(" r%d", i)
		obs += " " + check(fmt.Sprintf("r%d", i), rm)
		// byte alterations
		for m := 0; m < 2; m++ {
			pos := r.Intn(len(pl.blobs[i]))
			x := byte(1 + r.Intn(255))
			if m == 1 && r.Bool() {
				x = 1 << uint(r.Intn(8))
			}
			mb := common.CopyBytes(pl.blobs[i])
			mb[pos] ^= x
			al := make([][]byte, len(pl.blobs))
			copy(al, pl.blobs)
			al[i] = mb
			in += fmt.Sprintf(" x%d:%d:%d", i, pos, x)
			obs += " " + check(fmt.Sprintf("x%d:%d:%d", i, pos, x), al)
			// the altered blob stored under the ORIGINAL key (a database that lies): the answer is
			// unconstrained by the property, but the verifier must not crash (oracle) and the model's
			// decoder must agree with the implementation's (compared observable "L...")
			ldb := proofDB(pl.blobs)
			ldb.Put(crypto.Keccak256(pl.blobs[i]), mb)
			c3, _, p3 := verifyClass(root, pk, ldb)
			if p3 {
				o.Fail(step, "verify-panic", fmt.Sprintf("VerifyProof panicked on altered node x%d:%d:%d stored under the original hash", i, pos, x))
			}
			lk := lookupBlobs(pl.blobs)
			oh := string(crypto.Keccak256(pl.blobs[i]))
			checkAgainstRef(o, step, fmt.Sprintf("altered node x%d:%d:%d under its original hash", i, pos, x), c3, root, pk,
				func(h []byte) []byte {
					if string(h) == oh {
						return mb
					}
					return lk(h)
				})
			obs += " L" + c3
		}
		// truncation by one byte
		tb := common.CopyBytes(pl.blobs[i][:len(pl.blobs[i])-1])
		al := make([][]byte, len(pl.blobs))
		copy(al, pl.blobs)
		al[i] = tb
		in += fmt.Sprintf(" t%d", i)
		obs += " " + check(fmt.Sprintf("t%d", i), al)
	}
	// a proof for another key of the universe offered for this key
	o.Op(in, obs)
}

// ---------------------------------------------------------------- stack trie and DeriveSha

type kv struct{ k, v []byte }

func kvLine(tag string, kvs []kv) string {
	s := tag
	for _, e := range kvs {
		s += " " + hx(e.k) + "=" + hx(e.v)
	}
	return s
}

func runStack(o *out.Out, r *gen.Rand, c int) {
	o.Case(c, fmt.Sprintf("CASE %d S", c))
	kind := r.Pick(10, 2, 1)
	var kvs []kv
	seen := map[string]bool{}
	n := r.Intn(14)
	switch kind {
	case 0: // prefix-free: fixed length keys
		l := 1 + r.Intn(4)
		if r.Chance(1, 5) {
			l = 32
		}
		for i := 0; i < n; i++ {
			k := make([]byte, l)
			for j := range k {
				if r.Chance(2, 3) {
					k[j] = alpha[r.Intn(4)]
				} else {
					k[j] = byte(r.Intn(256))
				}
			}
			if !seen[string(k)] {
				seen[string(k)] = true
				kvs = append(kvs, kv{k, genValue(r)})
			}
		}
	default: // variable length (a key may be a prefix of another: the stack trie panics)
		for i := 0; i < n; i++ {
			k := make([]byte, r.Intn(4))
			for j := range k {
				k[j] = alpha[r.Intn(3)]
			}
			if !seen[string(k)] {
				seen[string(k)] = true
				kvs = append(kvs, kv{k, genValue(r)})
			}
		}
	}
	sort.Slice(kvs, func(i, j int) bool { return bytes.Compare(kvs[i].k, kvs[j].k) < 0 })
	prefixFree := true
	for i := 0; i+1 < len(kvs); i++ {
		if bytes.HasPrefix(kvs[i+1].k, kvs[i].k) {
			prefixFree = false
		}
	}
	sorted := true
	if kind == 2 && len(kvs) > 1 { // unsorted input: behaviour unspecified, model must still agree
		p := r.Perm(len(kvs))
		n2 := make([]kv, len(kvs))
		for i, j := range p {
			n2[i] = kvs[j]
		}
		kvs = n2
		for i := 0; i+1 < len(kvs); i++ {
			if bytes.Compare(kvs[i].k, kvs[i+1].k) >= 0 {
				sorted = false
			}
		}
	}
	var h common.Hash
	obs := ""
	pan := catch(func() {
		st := trie.NewStackTrie(nil)
		for _, e := range kvs {
			st.Update(e.k, common.CopyBytes(e.v))
		}
		h = st.Hash()
	})
	if pan {
		obs = "PANIC"
		if prefixFree && sorted {
			o.Fail(0, "stack-panic", "StackTrie panicked on sorted prefix-free data")
		}
	} else {
		obs = fmt.Sprintf("s:%x", h)
	}
	content := map[string][]byte{}
	for _, e := range kvs {
		content[string(e.k)] = e.v
	}
	id := func(k []byte) []byte { return k }
	if !pan && sorted {
		// ORACLE: streaming root = ordinary trie root = independent implementation's root
		if f := freshRoot(r, content, id); f != h {
			o.Fail(0, "stack-vs-trie", fmt.Sprintf("StackTrie root %x, Trie root %x", h, f))
		}
		if g := gethRoot(content, id); g != h {
			o.Fail(0, "stack-vs-reference", fmt.Sprintf("StackTrie root %x, go-ethereum root %x", h, g))
		}
		if prefixFree {
			stackExtras(o, r, kvs, h)
		}
	}
	switch {
	case !sorted:
		o.Count("stack.unsorted")
	case !prefixFree:
		o.Count("stack.prefix-related")
	default:
		o.Count("stack.prefix-free")
	}
	if pan {
		o.Count("stack.panic")
	}
	o.Op(kvLine("S", kvs), obs)
	o.Mark(fmt.Sprintf("S/%d/%d/%v", kind, len(kvs), pan))
}

type valList [][]byte

func (l valList) Len() int                           { return len(l) }
func (l valList) EncodeIndex(i int, w *bytes.Buffer) { w.Write(l[i]) }

func runDerive(o *out.Out, r *gen.Rand, c int) {
	o.Case(c, fmt.Sprintf("CASE %d D", c))
	var n int
	switch r.Pick(4, 3, 2, 1) {
	case 0:
		n = r.Intn(6)
	case 1:
		n = 6 + r.Intn(30)
	case 2:
		n = 125 + r.Intn(8)
	default:
		n = 129 + r.Intn(140)
	}
	vals := make(valList, n)
	strs := make([]string, n)
	for i := range vals {
		vals[i] = genValue(r)
		strs[i] = hx(vals[i])
	}
	var hs, ht common.Hash
	obs := ""
	if catch(func() { hs = types.DeriveSha(vals, trie.NewStackTrie(nil)) }) {
		obs = "PANIC"
		o.Fail(0, "derive-panic", "DeriveSha with StackTrie panicked")
	} else {
		obs = fmt.Sprintf("d:%x", hs)
	}
	if catch(func() { ht = types.DeriveSha(vals, trie.NewEmpty(trie.NewDatabase(memorydb.New()))) }) {
		obs += " PANIC"
		o.Fail(0, "derive-panic", "DeriveSha with Trie panicked")
	} else {
		obs += fmt.Sprintf(" t:%x", ht)
	}
	// ORACLE: both hashers agree with each other and with the reference trie over rlp(i) -> value
	content := map[string][]byte{}
	for i, v := range vals {
		k, _ := rlp.EncodeToBytes(uint64(i))
		content[string(k)] = v
	}
	g := gethRoot(content, func(k []byte) []byte { return k })
	if hs != ht {
		o.Fail(0, "derive-stack-vs-trie", fmt.Sprintf("DeriveSha: StackTrie %x, Trie %x", hs, ht))
	}
	if hs != g {
		o.Fail(0, "derive-vs-reference", fmt.Sprintf("DeriveSha %x, go-ethereum trie over rlp(i)->v %x", hs, g))
	}
	o.Count("derive")
	o.Op("V "+strings.Join(strs, " "), obs)
	o.Mark(fmt.Sprintf("D/%d", n))
}

// ---------------------------------------------------------------- malformed / crafted proof stream

func rlpStr(r *gen.Rand, b []byte) []byte {
	if r != nil && r.Chance(1, 25) { // non-canonical encodings
		switch r.Intn(3) {
		case 0:
			if len(b) == 1 && b[0] < 0x80 {
				return []byte{0x81, b[0]}
			}
		case 1:
			if len(b) < 56 {
				return append([]byte{0xb8, byte(len(b))}, b...)
			}
		default:
			return append([]byte{0xb9, 0x00, byte(len(b))}, b...)
		}
	}
	if len(b) == 1 && b[0] < 0x80 {
		return []byte{b[0]}
	}
	if len(b) < 56 {
		return append([]byte{0x80 + byte(len(b))}, b...)
	}
	return append([]byte{0xb8, byte(len(b))}, b...)
}

func rlpList(r *gen.Rand, items ...[]byte) []byte {
	var p []byte
	for _, it := range items {
		p = append(p, it...)
	}
	n := len(p)
	if r != nil && r.Chance(1, 30) {
		n += r.Intn(3) - 1 // wrong payload length
		if n < 0 {
			n = 0
		}
	}
	if n < 56 {
		return append([]byte{0xc0 + byte(n)}, p...)
	}
	if n < 256 {
		return append([]byte{0xf8, byte(n)}, p...)
	}
	return append([]byte{0xf9, byte(n >> 8), byte(n)}, p...)
}

func compactKey(nibbles []byte, term bool) []byte {
	flag := byte(0)
	if term {
		flag = 2
	}
	var out []byte
	if len(nibbles)%2 == 1 {
		out = append(out, (flag+1)<<4|nibbles[0])
		nibbles = nibbles[1:]
	} else {
		out = append(out, flag<<4)
	}
	for i := 0; i+1 < len(nibbles); i += 2 {
		out = append(out, nibbles[i]<<4|nibbles[i+1])
	}
	return out
}

// craftNode builds a node blob for the remaining key nibbles; further blobs it references by hash are
// appended to *extra.  Nothing guarantees validity: embedded children may be oversized, counts wrong, ...
func craftNode(r *gen.Rand, rem []byte, depth int, extra *[][]byte) []byte {
	child := func(rest []byte) []byte { // a reference to the subtree for rest
		switch r.Pick(5, 5, 1, 1, 1, 1, 3) {
		case 6: // embedded leaf whose encoding has a chosen total size around the 32-byte limit
			T := []int{30, 31, 32, 32, 33, 34, 40, 50}[r.Intn(8)]
			if len(rest) == 0 {
				return []byte{0x80}
			}
			eck := rlpStr(nil, compactKey(rest[:len(rest)-1], true))
			vlen := T - 2 - len(eck)
			if vlen < 2 || vlen > 54 {
				return []byte{0x80}
			}
			return rlpList(nil, eck, rlpStr(nil, r.Bytes(vlen)))
		case 0: // by hash
			b := craftNode(r, rest, depth+1, extra)
			*extra = append(*extra, b)
			return rlpStr(r, crypto.Keccak256(b))
		case 1: // embedded (whatever its size)
			if depth > 3 {
				return []byte{0x80}
			}
			return craftNode(r, rest, depth+1, extra)
		case 2:
			return rlpStr(r, r.Bytes(31))
		case 3:
			return rlpStr(r, r.Bytes(33))
		case 4:
			return []byte{byte(r.Intn(0x80))}
		default:
			return []byte{0x80}
		}
	}
	val := func() []byte {
		switch r.Pick(6, 1, 1) {
		case 0:
			return rlpStr(r, genValue(r))
		case 1:
			return []byte{0x80}
		default:
			return rlpList(r, rlpStr(r, r.Bytes(2)))
		}
	}
	switch r.Pick(6, 5, 6, 1, 1) {
	case 0: // leaf
		k := rem
		if r.Chance(1, 5) && len(k) > 0 {
			k = k[:r.Intn(len(k))]
		}
		ck := compactKey(k, true)
		if r.Chance(1, 10) {
			ck[0] |= byte(r.Intn(16)) << 4 // odd flag nibbles (4..15)
		}
		return rlpList(r, rlpStr(r, ck), val())
	case 1: // extension
		n := 0
		if len(rem) > 0 {
			n = r.Intn(len(rem) + 1)
		}
		ck := compactKey(rem[:n], false)
		if r.Chance(1, 12) {
			ck = nil // empty compact key
		}
		return rlpList(r, rlpStr(r, ck), child(rem[n:]))
	case 2: // branch
		items := make([][]byte, 17)
		for i := 0; i < 16; i++ {
			switch r.Pick(8, 2, 1, 1) {
			case 0:
				items[i] = []byte{0x80}
			case 1:
				items[i] = rlpStr(r, r.Bytes(32))
			case 2:
				items[i] = rlpList(r, rlpStr(r, compactKey([]byte{1}, true)), rlpStr(r, r.Bytes(1+r.Intn(40))))
			default:
				items[i] = rlpStr(r, r.Bytes(r.Intn(34)))
			}
		}
		items[16] = val()
		if len(rem) > 0 {
			items[rem[0]] = child(rem[1:])
		}
		return rlpList(r, items...)
	case 3: // wrong number of items
		n := []int{0, 1, 3, 16, 18}[r.Intn(5)]
		items := make([][]byte, n)
		for i := range items {
			items[i] = []byte{0x80}
		}
		return rlpList(r, items...)
	default: // not a list
		return rlpStr(r, r.Bytes(r.Intn(40)))
	}
}

func runCrafted(o *out.Out, r *gen.Rand, c int) {
	o.Case(c, fmt.Sprintf("CASE %d X", c))
	key := make([]byte, r.Intn(4))
	for i := range key {
		key[i] = alpha[r.Intn(5)]
	}
	var nib []byte
	for _, b := range key {
		nib = append(nib, b>>4, b&15)
	}
	nib = append(nib, 16)
	var extra [][]byte
	root := craftNode(r, nib, 0, &extra)
	blobs := append([][]byte{root}, extra...)
	cls, _, pan := verifyClass(common.BytesToHash(crypto.Keccak256(root)), key, proofDB(blobs))
	if pan {
		// ORACLE (robustness): no proof, however malformed, may crash the verifier
		o.Fail(0, "verify-panic", "VerifyProof panicked on a crafted proof")
	}
	checkAgainstRef(o, 0, "crafted proof", cls, common.BytesToHash(crypto.Keccak256(root)), key, lookupBlobs(blobs))
	line := "X " + hx(key)
	for _, b := range blobs {
		line += " " + hx(b)
	}
	o.Count("crafted." + cls[:1])
	o.Op(line, cls)
	o.Mark(fmt.Sprintf("X/%d/%d/%s", len(key), len(blobs), cls[:1]))
}

func main() {
	out.WriteFacts(func() string {
		return fmt.Sprintf("From Coq Require Import List NArith.\nImport ListNotations.\n(* types.EmptyRootHash *)\nDefinition empty_root_hash : list N := [%s]%%N.\n",
			nlist(types.EmptyRootHash.Bytes()))
	})
	o := out.Open()
	o.Rule = "a case is one trie history (Update/Delete/Get/Hash/Commit/Reopen/Copy/Prove/Iterate/RangeProof over a key universe with shared prefixes, 3 slots sharing one reference-counted database with garbage collection in between), one StackTrie run (plus Commit with a writer and a marshal/unmarshal round trip), one DeriveSha run, one bulk run (>= 100 unhashed changes: parallel hashing), or one crafted (possibly malformed) proof; non-trivial = at least 3 operations or 2 keys; distinct by (family, universe size, first 24 op kinds) / (kind, size, outcome)"
	// ORACLE (constant): the empty root is keccak(rlp(""))
	if !bytes.Equal(types.EmptyRootHash.Bytes(), crypto.Keccak256([]byte{0x80})) {
		o.Case(-1, "CASE -1 X")
		o.Fail(0, "empty-root-constant", "types.EmptyRootHash is not keccak256(0x80)")
	}
	root := gen.New(*out.Seed)
	for c := 0; c < *out.N; c++ {
		if !out.Want(c) {
			continue
		}
		r := root.Fork(uint64(c))
		switch r.Pick(32, 6, 2, 8, 1) {
		case 0:
			runHistory(o, r, c)
		case 1:
			runStack(o, r, c)
		case 2:
			runDerive(o, r, c)
		case 3:
			runCrafted(o, r, c)
		default:
			runBulk(o, r, c)
		}
	}
	o.Close()
}

func nlist(b []byte) string {
	s := make([]string, len(b))
	for i, x := range b {
		s[i] = fmt.Sprint(x)
	}
	return strings.Join(s, "; ")
}
