// C16 harness: drives the real lib/rlp (EncodeToBytes, DecodeBytes, Split*, CountValues) with
// generated type descriptors (realised with reflect.StructOf, including struct tags), generated
// values and hostile byte strings; prints the projected observables for the model driver and
// evaluates the property directly on the implementation (round trip, canonicity, no panic,
// allocation bounded by the input, go-ethereum v1.9.15 rlp as arbiter, stability of the
// encodings/hashes of Transaction, Receipt and state accounts).
package main

import (
	"bufio"
	"bytes"
	"encoding/hex"
	"errors"
	"fmt"
	"io"
	"math/big"
	"os"
	"os/exec"
	"strconv"
	"reflect"
	"runtime"
	"runtime/metrics"
	"strings"
	"time"

	geth "github.com/ethereum/go-ethereum/rlp"
	"github.com/kardiachain/go-kardia/lib/common"
	"github.com/kardiachain/go-kardia/lib/rlp"
	"github.com/kardiachain/go-kardia/types"

	"verif/harness/internal/gen"
	"verif/harness/internal/out"
)

// ---------------------------------------------------------------- type descriptors

type T struct {
	K      string // u big bigv bool bytes arr str list ptr raw iface struct vec
	Bits   int
	N      int
	Elem   *T
	Fields []F
	rt     reflect.Type
}

type F struct {
	T                   *T
	Opt, Tail, Ign      bool
	Nil                 string // "", "nil", "nilString", "nilList"
}

func (f F) tagTok() string {
	s := ""
	if f.Opt {
		s += "o"
	}
	if f.Tail {
		s += "t"
	}
	if f.Ign {
		s += "i"
	}
	switch f.Nil {
	case "nil":
		s += "n"
	case "nilString":
		s += "S"
	case "nilList":
		s += "L"
	}
	if s == "" {
		return "-"
	}
	return s
}

func (f F) structTag() reflect.StructTag {
	if f.Ign {
		return `rlp:"-"`
	}
	var p []string
	if f.Opt {
		p = append(p, "optional")
	}
	if f.Nil != "" {
		p = append(p, f.Nil)
	}
	if f.Tail {
		p = append(p, "tail")
	}
	if len(p) == 0 {
		return ""
	}
	return reflect.StructTag(`rlp:"` + strings.Join(p, ",") + `"`)
}

// tokens: the descriptor as the model driver reads it.  Two Go shapes have no constructor of
// their own in the model because an existing one has exactly their semantics: a big.Int held by
// value ("bigv") is the model's big integer that is never nil, and an array [n]T of non-byte
// elements ("vec") is encoded and decoded like a struct of n untagged fields of type T (list
// header, the n elements in order, "too few" / "too many" elements otherwise).
func (t *T) tokens() string { return t.toks(true) }

// key: like tokens but keeps bigv and vec apart (cache key of the realised reflect.Type)
func (t *T) key() string { return t.toks(false) }

func (t *T) toks(model bool) string {
	switch t.K {
	case "u":
		return fmt.Sprintf("u%d", t.Bits)
	case "arr":
		return fmt.Sprintf("arr %d", t.N)
	case "bigv":
		if model {
			return "big"
		}
		return "bigv"
	case "vec":
		if !model {
			return fmt.Sprintf("vec %d %s", t.N, t.Elem.toks(model))
		}
		s := fmt.Sprintf("struct %d", t.N)
		e := t.Elem.toks(model)
		for i := 0; i < t.N; i++ {
			s += " - " + e
		}
		return s
	case "list", "ptr":
		return t.K + " " + t.Elem.toks(model)
	case "struct":
		s := fmt.Sprintf("struct %d", len(t.Fields))
		for _, f := range t.Fields {
			s += " " + f.tagTok() + " " + f.T.toks(model)
		}
		return s
	}
	return t.K
}

var (
	bigPtrType = reflect.TypeOf((*big.Int)(nil))
	ifaceType  = reflect.TypeOf((*interface{})(nil)).Elem()
	rawType    = reflect.TypeOf(rlp.RawValue{})
	typeCache  = map[string]reflect.Type{}
)

func (t *T) rtype() reflect.Type {
	if t.rt != nil {
		return t.rt
	}
	key := t.key()
	if rt, ok := typeCache[key]; ok {
		t.rt = rt
		return rt
	}
	var rt reflect.Type
	switch t.K {
	case "u":
		switch t.Bits {
		case 8:
			rt = reflect.TypeOf(uint8(0))
		case 16:
			rt = reflect.TypeOf(uint16(0))
		case 32:
			rt = reflect.TypeOf(uint32(0))
		default:
			rt = reflect.TypeOf(uint64(0))
		}
	case "big":
		rt = bigPtrType
	case "bigv":
		rt = bigPtrType.Elem()
	case "vec":
		rt = reflect.ArrayOf(t.N, t.Elem.rtype())
	case "bool":
		rt = reflect.TypeOf(false)
	case "bytes":
		rt = reflect.TypeOf([]byte{})
	case "arr":
		rt = reflect.ArrayOf(t.N, reflect.TypeOf(uint8(0)))
	case "str":
		rt = reflect.TypeOf("")
	case "raw":
		rt = rawType
	case "iface":
		rt = ifaceType
	case "list":
		rt = reflect.SliceOf(t.Elem.rtype())
	case "ptr":
		rt = reflect.PtrTo(t.Elem.rtype())
	case "struct":
		var sf []reflect.StructField
		for i, f := range t.Fields {
			sf = append(sf, reflect.StructField{Name: fmt.Sprintf("F%d", i), Type: f.T.rtype(), Tag: f.structTag()})
		}
		rt = reflect.StructOf(sf)
	default:
		panic("bad kind " + t.K)
	}
	typeCache[key] = rt
	t.rt = rt
	return rt
}

func (t *T) any(p func(*T) bool) bool {
	if p(t) {
		return true
	}
	if t.Elem != nil && t.Elem.any(p) {
		return true
	}
	for _, f := range t.Fields {
		if f.T.any(p) {
			return true
		}
	}
	return false
}

func (t *T) hasOptional() bool {
	return t.any(func(x *T) bool {
		for _, f := range x.Fields {
			if f.Opt {
				return true
			}
		}
		return false
	})
}
func (t *T) hasRaw() bool { return t.any(func(x *T) bool { return x.K == "raw" }) }
func (t *T) hasTags() bool {
	return t.any(func(x *T) bool {
		for _, f := range x.Fields {
			if f.tagTok() != "-" {
				return true
			}
		}
		return false
	})
}

var arrLens = []int{0, 1, 1, 2, 3, 20, 32, 55, 56, 60}

func genLeaf(r *gen.Rand) *T {
	switch r.Pick(6, 3, 2, 4, 3, 2, 1, 2) {
	case 0:
		return &T{K: "u", Bits: []int{8, 16, 32, 64, 64}[r.Intn(5)]}
	case 1:
		if r.Chance(1, 4) {
			return &T{K: "bigv"}
		}
		return &T{K: "big"}
	case 2:
		return &T{K: "bool"}
	case 3:
		return &T{K: "bytes"}
	case 4:
		return &T{K: "arr", N: arrLens[r.Intn(len(arrLens))]}
	case 5:
		return &T{K: "str"}
	case 6:
		return &T{K: "raw"}
	default:
		return &T{K: "iface"}
	}
}

func genType(r *gen.Rand, depth int) *T {
	if depth <= 0 || r.Chance(2, 5) {
		return genLeaf(r)
	}
	switch r.Pick(3, 2, 4, 1) {
	case 0:
		e := genType(r, depth-1)
		if e.K == "u" && e.Bits == 8 {
			e = &T{K: "u", Bits: 16} // []uint8 is a byte slice, not a list
		}
		return &T{K: "list", Elem: e}
	case 1:
		e := genType(r, depth-1)
		if e.K == "bigv" {
			e = &T{K: "big"} // a pointer to a big.Int value IS the *big.Int of kind "big"
		}
		return &T{K: "ptr", Elem: e}
	case 3:
		// [n]T with a non-byte element type (decodeListArray / the slice writer)
		e := genType(r, depth-2)
		if e.K == "u" && e.Bits == 8 {
			e = &T{K: "u", Bits: 32}
		}
		return &T{K: "vec", N: []int{0, 1, 2, 3, 4}[r.Intn(5)], Elem: e}
	default:
		return genStruct(r, depth)
	}
}

func genStruct(r *gen.Rand, depth int) *T {
	k := r.Intn(6)
	t := &T{K: "struct"}
	for i := 0; i < k; i++ {
		t.Fields = append(t.Fields, F{T: genType(r, depth-1)})
	}
	optFrom := k + 1
	if r.Chance(1, 3) {
		optFrom = r.Intn(k + 1)
	}
	for i := range t.Fields {
		f := &t.Fields[i]
		if r.Chance(1, 12) {
			f.Ign = true
			continue
		}
		if f.T.K == "ptr" && r.Chance(1, 2) {
			f.Nil = []string{"nil", "nilString", "nilList"}[r.Intn(3)]
		}
		if i >= optFrom {
			f.Opt = true
		}
	}
	if k > 0 && r.Chance(1, 5) {
		e := genType(r, depth-1)
		if e.K == "u" && e.Bits == 8 {
			e = &T{K: "u", Bits: 32}
		}
		t.Fields[k-1] = F{T: &T{K: "list", Elem: e}, Tail: true}
	}
	return t
}

// ---------------------------------------------------------------- values

var lens = []int{0, 1, 1, 2, 3, 31, 32, 33, 54, 55, 56, 57, 60, 255, 256, 257, 300}

func genBytes(r *gen.Rand) []byte {
	var n int
	if r.Chance(1, 2) {
		n = lens[r.Intn(len(lens))]
	} else {
		n = r.Intn(70)
	}
	b := r.Bytes(n)
	if n == 1 {
		b[0] = []byte{0, 1, 0x7f, 0x80, 0x81, 0xff, b[0]}[r.Intn(7)]
	}
	if n > 1 && r.Chance(1, 6) {
		b[0] = 0
	}
	return b
}

func genU64(r *gen.Rand, bits int) uint64 {
	var v uint64
	switch r.Pick(3, 3, 3) {
	case 0:
		v = []uint64{0, 1, 0x7f, 0x80, 0xff, 0x100, 0xffff, 0x10000, 1 << 32, 1<<56 - 1, 1 << 56, ^uint64(0)}[r.Intn(12)]
	case 1:
		k := uint(r.Intn(64))
		v = uint64(1) << k
		if r.Bool() {
			v--
		}
	default:
		v = r.U64() >> uint(r.Intn(64))
	}
	if bits < 64 {
		v &= (uint64(1) << uint(bits)) - 1
	}
	return v
}

func genBig(r *gen.Rand) *big.Int {
	switch r.Pick(3, 2, 3) {
	case 0:
		return new(big.Int).SetUint64(genU64(r, 64))
	case 1:
		k := []uint{64, 65, 72, 128, 255, 256, 257, 264}[r.Intn(8)]
		v := new(big.Int).Lsh(big.NewInt(1), k)
		if r.Bool() {
			v.Sub(v, big.NewInt(1))
		}
		return v
	default:
		return new(big.Int).SetBytes(r.Bytes(1 + r.Intn(40)))
	}
}

func genItem(r *gen.Rand, depth int) interface{} {
	if depth <= 0 || r.Chance(3, 5) {
		return genBytes(r)
	}
	n := r.Intn(5)
	l := make([]interface{}, n)
	for i := range l {
		l[i] = genItem(r, depth-1)
	}
	return l
}

// genVal fills v (settable, zero) with a random value of descriptor t; f carries the field tags.
// wild allows the non-round-tripping shapes (nil pointers without nil tag, nil slices, ...).
func genVal(r *gen.Rand, t *T, f F, v reflect.Value, wild bool) {
	switch t.K {
	case "u":
		v.SetUint(genU64(r, t.Bits))
	case "big":
		if wild && r.Chance(1, 10) {
			return
		}
		v.Set(reflect.ValueOf(genBig(r)))
	case "bigv":
		v.Set(reflect.ValueOf(*genBig(r)))
	case "vec":
		if r.Chance(1, 8) {
			return // all elements zero
		}
		for i := 0; i < t.N; i++ {
			genVal(r, t.Elem, F{}, v.Index(i), wild)
		}
	case "bool":
		v.SetBool(r.Bool())
	case "bytes":
		if wild && r.Chance(1, 10) {
			return
		}
		v.SetBytes(genBytes(r))
	case "arr":
		if r.Chance(1, 6) {
			return
		}
		b := r.Bytes(t.N)
		if t.N == 1 {
			b[0] = []byte{0, 1, 0x7f, 0x80, 0xff, b[0]}[r.Intn(6)]
		}
		reflect.Copy(v, reflect.ValueOf(b))
	case "str":
		v.SetString(string(genBytes(r)))
	case "raw":
		if wild && r.Chance(1, 10) {
			return
		}
		e, err := rlp.EncodeToBytes(genItem(r, 2))
		if err != nil {
			panic(err)
		}
		v.SetBytes(e)
	case "iface":
		if wild && r.Chance(1, 10) {
			return
		}
		v.Set(reflect.ValueOf(genItem(r, 2)))
	case "list":
		if wild && r.Chance(1, 8) {
			return
		}
		n := r.Intn(4)
		if r.Chance(1, 10) && t.Elem.Elem == nil && t.Elem.K != "struct" && t.Elem.K != "iface" && t.Elem.K != "raw" {
			n = 20 + r.Intn(50) // long lists (long-form list headers) of scalars only: sizes stay in the KB range
		}
		s := reflect.MakeSlice(t.rtype(), n, n)
		for i := 0; i < n; i++ {
			genVal(r, t.Elem, F{}, s.Index(i), wild)
		}
		v.Set(s)
	case "ptr":
		if f.Nil != "" && r.Chance(1, 3) {
			return
		}
		if wild && r.Chance(1, 8) {
			return
		}
		p := reflect.New(t.Elem.rtype())
		genVal(r, t.Elem, F{}, p.Elem(), wild)
		v.Set(p)
	case "struct":
		zeroFrom := len(t.Fields) + 1
		if r.Chance(1, 2) {
			zeroFrom = r.Intn(len(t.Fields) + 1)
		}
		for i, ff := range t.Fields {
			if ff.Ign && (!wild || r.Bool()) {
				continue
			}
			if ff.Opt && i >= zeroFrom {
				continue
			}
			genVal(r, ff.T, ff, v.Field(i), wild)
		}
	}
}

func hexs(b []byte) string {
	if len(b) == 0 {
		return "-"
	}
	return hex.EncodeToString(b)
}

func dumpItem(x interface{}) string {
	switch y := x.(type) {
	case []byte:
		return "x " + hexs(y)
	case []interface{}:
		s := fmt.Sprintf("l %d", len(y))
		for _, e := range y {
			s += " " + dumpItem(e)
		}
		return s
	}
	return fmt.Sprintf("?%T", x)
}

// dump prints a value in the token syntax of the model driver.
func dump(t *T, v reflect.Value) string {
	switch t.K {
	case "u":
		return fmt.Sprintf("u %d", v.Uint())
	case "big":
		if v.IsNil() {
			return "nil"
		}
		return "u " + v.Interface().(*big.Int).String()
	case "bigv":
		x := v.Interface().(big.Int)
		return "u " + x.String()
	case "vec":
		s := fmt.Sprintf("s %d", t.N)
		for i := 0; i < t.N; i++ {
			s += " " + dump(t.Elem, v.Index(i))
		}
		return s
	case "bool":
		if v.Bool() {
			return "t"
		}
		return "f"
	case "bytes", "raw":
		if v.IsNil() {
			return "nil"
		}
		return "x " + hexs(v.Bytes())
	case "arr":
		b := make([]byte, t.N)
		reflect.Copy(reflect.ValueOf(b), v)
		return "x " + hexs(b)
	case "str":
		return "x " + hexs([]byte(v.String()))
	case "iface":
		if v.IsNil() {
			return "nil"
		}
		return "I " + dumpItem(v.Interface())
	case "list":
		if v.IsNil() {
			return "nil"
		}
		s := fmt.Sprintf("l %d", v.Len())
		for i := 0; i < v.Len(); i++ {
			s += " " + dump(t.Elem, v.Index(i))
		}
		return s
	case "ptr":
		if v.IsNil() {
			return "nil"
		}
		return "p " + dump(t.Elem, v.Elem())
	case "struct":
		s := fmt.Sprintf("s %d", len(t.Fields))
		for i, f := range t.Fields {
			s += " " + dump(f.T, v.Field(i))
		}
		return s
	}
	return "?"
}

// wf mirrors the model's wf_val: the values for which decode(encode v) = v is claimed.
func wf(t *T, f F, v reflect.Value) bool {
	switch t.K {
	case "big", "bytes", "raw", "iface":
		return !v.IsNil()
	case "list":
		if v.IsNil() {
			return false
		}
		for i := 0; i < v.Len(); i++ {
			if !wf(t.Elem, F{}, v.Index(i)) {
				return false
			}
		}
	case "vec":
		for i := 0; i < t.N; i++ {
			if !wf(t.Elem, F{}, v.Index(i)) {
				return false
			}
		}
	case "ptr":
		if v.IsNil() {
			return f.Nil != ""
		}
		if !wf(t.Elem, F{}, v.Elem()) {
			return false
		}
		if f.Nil != "" {
			e, err := rlp.EncodeToBytes(v.Elem().Interface())
			if err != nil || len(e) == 0 || e[0] == 0x80 || e[0] == 0xC0 {
				return false
			}
		}
	case "struct":
		for i, ff := range t.Fields {
			if ff.Ign {
				if !v.Field(i).IsZero() {
					return false
				}
				continue
			}
			if !wf(ff.T, ff, v.Field(i)) {
				return false
			}
		}
	}
	return true
}

// ---------------------------------------------------------------- error classes

func errClass(err error) string {
	switch err {
	case nil:
		return "none"
	case io.EOF:
		return "eof"
	case io.ErrUnexpectedEOF:
		return "ueof"
	case rlp.EOL:
		return "eol"
	case rlp.ErrExpectedString:
		return "expstr"
	case rlp.ErrExpectedList:
		return "explist"
	case rlp.ErrCanonInt:
		return "canonint"
	case rlp.ErrCanonSize:
		return "canonsize"
	case rlp.ErrElemTooLarge:
		return "elemlarge"
	case rlp.ErrValueTooLarge:
		return "vallarge"
	case rlp.ErrMoreThanOneValue:
		return "morethanone"
	}
	s := err.Error()
	switch {
	case strings.Contains(s, "non-canonical integer"):
		return "canonint"
	case strings.Contains(s, "non-canonical size"):
		return "canonsize"
	case strings.Contains(s, "expected input list"):
		return "explist"
	case strings.Contains(s, "expected input string or byte"):
		return "expstr"
	case strings.Contains(s, "input string too long"):
		return "toolong"
	case strings.Contains(s, "input string too short"):
		return "tooshort"
	case strings.Contains(s, "input list has too many elements"):
		return "toomany"
	case strings.Contains(s, "input list has too few elements"):
		return "toofew" // decodeListArray; same class as the struct decoder's (see T.tokens)
	case strings.Contains(s, "too few elements"):
		return "toofew"
	case strings.Contains(s, "invalid boolean value"):
		return "bool"
	case strings.Contains(s, "wrong kind of empty value"):
		return "wrongempty"
	case strings.Contains(s, "uint overflow"):
		return "uintoverflow"
	case strings.Contains(s, "ListEnd not positioned at EOL"):
		return "toomany"
	case strings.Contains(s, "ListEnd outside of any list"):
		return "notinlist"
	case strings.Contains(s, "input value has wrong size"):
		return "wrongsize"
	case strings.Contains(s, "cannot encode negative"):
		return "negative"
	}
	return "other:" + strings.ReplaceAll(s, " ", "_")
}

// ---------------------------------------------------------------- guarded calls + oracles

var o *out.Out
var dbg = os.Getenv("C16DBG") != ""
var step int

func memNow() uint64 {
	var m runtime.MemStats
	runtime.ReadMemStats(&m)
	return m.TotalAlloc
}

// memFast: cumulative heap allocation without stopping the world.  Large objects are accounted
// at once, small ones when their span is handed back, so the figure can lag by a few spans: it
// is used as a filter only; an operation that looks expensive is repeated under the exact
// (stop-the-world) measure before anything is reported.
var memSample = []metrics.Sample{{Name: "/gc/heap/allocs:bytes"}}

func memFast() uint64 {
	metrics.Read(memSample)
	if memSample[0].Value.Kind() != metrics.KindUint64 {
		return memNow()
	}
	return memSample[0].Value.Uint64()
}

// allocation allowed for decoding n input bytes into a target that ends up as v: a constant
// factor per input byte for the leaves (boxed byte strings, big integers, error values), a
// constant for pooled streams and reflection, and — accounted from the value the decoder
// actually produced, also on failure — what its slices and pointers justify: a slice that holds
// k elements may have cost 4 x (k+4) element slots (growth by 1.5x from capacity 4, old copies
// included), a non-nil pointer one target.  A backing array sized from a CLAIMED length, or a
// buffer for a declared size that the input does not have, is far above it.
//
// (A pointer target is only stored once it decoded completely, so after an error inside a pointer
// the partial value is not visible: failed decodes into pointer-holding types get the wider
// per-byte factor that the value-blind bound of the earlier rounds used.)
func allocBound(n int, v reflect.Value, blind bool) uint64 {
	f := uint64(256)
	if blind {
		f = 768
	}
	return uint64(n)*f + 256*1024 + valueBudget(v, 0)
}

func valueBudget(v reflect.Value, depth int) uint64 {
	if depth > 64 || !v.IsValid() {
		return 0
	}
	var b uint64
	switch v.Kind() {
	case reflect.Slice:
		if v.IsNil() {
			return 0
		}
		es := uint64(v.Type().Elem().Size())
		b = 4 * uint64(v.Len()+4) * es
		if k := v.Type().Elem().Kind(); k == reflect.Uint8 {
			return b
		}
		for i := 0; i < v.Len(); i++ {
			b += valueBudget(v.Index(i), depth+1)
		}
	case reflect.Array:
		if k := v.Type().Elem().Kind(); k == reflect.Uint8 {
			return 0
		}
		for i := 0; i < v.Len(); i++ {
			b += valueBudget(v.Index(i), depth+1)
		}
	case reflect.Struct:
		if v.Type() == bigPtrType.Elem() {
			return 64
		}
		for i := 0; i < v.NumField(); i++ {
			if v.Type().Field(i).PkgPath == "" {
				b += valueBudget(v.Field(i), depth+1)
			}
		}
	case reflect.Ptr:
		if !v.IsNil() {
			b = 2*uint64(v.Type().Elem().Size()) + valueBudget(v.Elem(), depth+1)
		}
	case reflect.Interface:
		if !v.IsNil() {
			b = 64 + valueBudget(v.Elem(), depth+1)
		}
	}
	return b
}

func safeDecode(lib string, b []byte, target interface{}) (err error, panicked bool) {
	defer func() {
		if r := recover(); r != nil {
			panicked = true
			err = fmt.Errorf("panic: %v", r)
		}
	}()
	if lib == "geth" {
		return geth.DecodeBytes(b, target), false
	}
	return rlp.DecodeBytes(b, target), false
}

func safeEncode(lib string, v interface{}) (e []byte, err error, panicked bool) {
	defer func() {
		if r := recover(); r != nil {
			panicked = true
			err = fmt.Errorf("panic: %v", r)
		}
	}()
	if lib == "geth" {
		e, err = geth.EncodeToBytes(v)
		return
	}
	e, err = rlp.EncodeToBytes(v)
	return
}

// canonClass names a canonicity failure: input h was accepted as the value dumped in ds, which
// re-encodes to re != h.  The one known shape gets its own class: the type has optional fields,
// the re-encoding is shorter (explicitly encoded zero values in a trailing optional position
// were dropped) and decodes to the same value.  Everything else is "noncanonical".
func canonClass(t *T, h, re []byte, ds string) string {
	if t.hasOptional() && len(re) < len(h) {
		p2 := reflect.New(t.rtype())
		if err2, pan2 := safeDecode("kai", re, p2.Interface()); err2 == nil && !pan2 && dump(t, p2.Elem()) == ds {
			return "noncanonical-optional"
		}
	}
	return "noncanonical"
}

// decodeOp decodes h into a fresh value of t, returns the observable and runs the direct oracles.
func decodeOp(t *T, h []byte, arbiter bool) string {
	step++
	if dbg {
		fmt.Fprintf(os.Stderr, "decode [%s] %s\n", t.tokens(), hexs(h))
	}
	rt := t.rtype()
	p := reflect.New(rt)
	m0 := memFast()
	err, pan := safeDecode("kai", h, p.Interface())
	m1 := memFast()
	if pan {
		o.Fail(step, "panic-decode", fmt.Sprintf("type=[%s] input=%s %v", t.tokens(), hexs(h), err))
		return "PANIC"
	}
	blind := err != nil && t.any(func(x *T) bool { return x.K == "ptr" || x.K == "iface" })
	if m1-m0 > allocBound(len(h), p.Elem(), blind)/2 {
		// exact measure on a repetition (a fresh target; the type cache is warm now)
		o.Count("alloc.exact-remeasure")
		p2 := reflect.New(rt)
		e0 := memNow()
		safeDecode("kai", h, p2.Interface())
		e1 := memNow()
		if d, bd := e1-e0, allocBound(len(h), p2.Elem(), blind); d > bd {
			hx := hexs(h)
			if len(hx) > 400 {
				hx = hx[:400] + fmt.Sprintf("...(%d bytes)", len(h))
			}
			o.Fail(step, "alloc-unbounded", fmt.Sprintf("type=[%s] input=%s allocated=%d bound=%d (the decoded value, also a partial one after an error, justifies %d of it)", t.tokens(), hx, d, bd, valueBudget(p2.Elem(), 0)))
		}
	}
	var obs string
	if err != nil {
		obs = "d err " + errClass(err)
	} else {
		ds := dump(t, p.Elem())
		obs = "d ok " + ds
		// canonicity: an accepted string is the encoding of the value it decodes to
		re, eerr, epan := safeEncode("kai", p.Elem().Interface())
		switch {
		case epan || eerr != nil:
			o.Fail(step, "reencode-failed", fmt.Sprintf("type=[%s] input=%s %v", t.tokens(), hexs(h), eerr))
		case !bytes.Equal(re, h):
			cls := canonClass(t, h, re, ds)
			o.Fail(step, cls, fmt.Sprintf("type=[%s] input=%s decodes to [%s] which encodes to %s", t.tokens(), hexs(h), ds, hexs(re)))
		}
	}
	// (go-ethereum v1.9.15 itself loops forever on a 0x00 byte decoded into a [1]byte list
	// element — its decodeByteArray ignores the error of s.Uint() and the kind stays armed — so
	// types containing [1]byte are not given to the arbiter's decoder)
	if arbiter && !t.hasOptional() && !t.hasRaw() && !t.any(func(x *T) bool { return x.K == "arr" && x.N == 1 }) {
		g := reflect.New(rt)
		gerr, gpan := safeDecode("geth", h, g.Interface())
		if gpan {
			gerr = errors.New("panic")
		}
		if (gerr == nil) != (err == nil) || (err == nil && dump(t, g.Elem()) != dump(t, p.Elem())) {
			o.Fail(step, "arbiter-decode", fmt.Sprintf("type=[%s] input=%s kai=%v geth=%v", t.tokens(), hexs(h), err, gerr))
		}
	}
	return obs
}

// ---------------------------------------------------------------- hostile strings

type node struct {
	str  []byte
	list []*node
	isL  bool
}

// parse a canonical encoding (trusted: produced by the encoder); nil on anything unexpected.
func parseNode(b []byte) (*node, []byte) {
	if len(b) == 0 {
		return nil, nil
	}
	t := b[0]
	rd := func(b []byte, n int) (int, []byte) {
		if n > len(b) || n > 4 {
			return -1, nil
		}
		s := 0
		for i := 0; i < n; i++ {
			s = s<<8 | int(b[i])
		}
		return s, b[n:]
	}
	var size int
	var rest []byte
	isL := false
	switch {
	case t < 0x80:
		return &node{str: []byte{t}}, b[1:]
	case t < 0xB8:
		size, rest = int(t-0x80), b[1:]
	case t < 0xC0:
		size, rest = rd(b[1:], int(t-0xB7))
	case t < 0xF8:
		size, rest, isL = int(t-0xC0), b[1:], true
	default:
		size, rest = rd(b[1:], int(t-0xF7))
		isL = true
	}
	if size < 0 || size > len(rest) {
		return nil, nil
	}
	if !isL {
		return &node{str: rest[:size]}, rest[size:]
	}
	n := &node{isL: true}
	p := rest[:size]
	for len(p) > 0 {
		c, r := parseNode(p)
		if c == nil {
			return nil, nil
		}
		n.list = append(n.list, c)
		p = r
	}
	return n, rest[size:]
}

func (n *node) count() int {
	c := 1
	for _, x := range n.list {
		c += x.count()
	}
	return c
}

func beBytes(n int) []byte {
	var b []byte
	for n > 0 {
		b = append([]byte{byte(n)}, b...)
		n >>= 8
	}
	return b
}

func headCanon(small, large byte, size int) []byte {
	if size < 56 {
		return []byte{small + byte(size)}
	}
	s := beBytes(size)
	return append([]byte{large + byte(len(s))}, s...)
}

// serialise the tree; node number `at` gets the non-canonical variant `variant`.
func (n *node) enc(idx *int, at int, variant int, used *string) []byte {
	me := *idx
	*idx++
	var payload []byte
	small, large := byte(0x80), byte(0xB7)
	if n.isL {
		small, large = 0xC0, 0xF7
		for _, c := range n.list {
			payload = append(payload, c.enc(idx, at, variant, used)...)
		}
	} else {
		payload = n.str
	}
	if me != at {
		if !n.isL && len(payload) == 1 && payload[0] < 0x80 {
			return payload
		}
		return append(headCanon(small, large, len(payload)), payload...)
	}
	size := len(payload)
	switch variant {
	case 0: // long form although the size is < 56 / single byte wrapped as a string
		if !n.isL && size == 1 && payload[0] < 0x80 {
			*used = "wrapped-single-byte"
			return append([]byte{0x81}, payload...)
		}
		*used = "long-form-short-size"
		if size >= 56 {
			*used = "long-form-leading-zero"
			return append(append([]byte{large + byte(len(beBytes(size))) + 1, 0}, beBytes(size)...), payload...)
		}
		return append([]byte{large + 1, byte(size)}, payload...)
	case 1: // leading zero in a long-form length
		*used = "long-form-leading-zero"
		s := beBytes(size)
		if len(s) == 0 {
			s = []byte{0}
		}
		return append(append([]byte{large + byte(len(s)) + 1, 0}, s...), payload...)
	case 2: // string content with a leading zero byte (non-canonical integer)
		if n.isL {
			*used = "list-two-byte-length"
			return append([]byte{large + 2, byte(size >> 8), byte(size)}, payload...)
		}
		*used = "leading-zero-content"
		pl := append([]byte{0}, payload...)
		return append(headCanon(small, large, len(pl)), pl...)
	case 3: // declared size a little larger than the content
		*used = "size-plus"
		return append(headCanon(small, large, size+1+me%3), payload...)
	case 4: // declared size one smaller than the content
		*used = "size-minus-one"
		if size == 0 {
			return []byte{small}
		}
		return append(headCanon(small, large, size-1), payload...)
	default: // huge declared size
		*used = "huge-size"
		hs := [][]byte{{large + 8, 0xff, 0xff, 0xff, 0xff, 0xff, 0xff, 0xff, 0xff}, {large + 4, 0x7f, 0xff, 0xff, 0xff},
			{large + 4, 0x05, 0xf5, 0xe1, 0x00}, {large + 2, 0xff, 0xff}, {large + 8, 0x80, 0, 0, 0, 0, 0, 0, 0}, {large + 5, 0x01, 0, 0, 0, 0}}
		return append(append([]byte{}, hs[variant%len(hs)]...), payload...)
	}
}

var hdrBytes = []byte{0x00, 0x01, 0x7f, 0x80, 0x81, 0x82, 0xb7, 0xb8, 0xb9, 0xbf, 0xc0, 0xc1, 0xc2, 0xf7, 0xf8, 0xf9, 0xff, 0x37, 0x38}

func fill(n int, b byte) []byte { return bytes.Repeat([]byte{b}, n) }

// fixed boundary vectors: every header form at its edges
func boundaryVectors() [][]byte {
	cat := func(p ...[]byte) []byte { return bytes.Join(p, nil) }
	return [][]byte{
		{}, {0x00}, {0x7f}, {0x80}, {0x81}, {0x81, 0x00}, {0x81, 0x05}, {0x81, 0x7f}, {0x81, 0x80}, {0x81, 0xff},
		{0x82, 0x00, 0x01}, {0x82, 0x01, 0x00}, {0x88, 1, 2, 3, 4, 5, 6, 7, 8}, {0x89, 1, 2, 3, 4, 5, 6, 7, 8, 9}, {0x88, 0, 2, 3, 4, 5, 6, 7, 8},
		cat([]byte{0xb7}, fill(55, 0x11)), cat([]byte{0xb8, 0x37}, fill(55, 0x11)), cat([]byte{0xb8, 0x38}, fill(56, 0x11)),
		cat([]byte{0xb9, 0x00, 0x38}, fill(56, 0x11)), cat([]byte{0xb8, 0x00}), cat([]byte{0xb8, 0x01, 0x05}), cat([]byte{0xb9, 0x01, 0x00}, fill(256, 0x22)),
		cat([]byte{0xb8, 0x39}, fill(56, 0x11)), cat([]byte{0xb8, 0x38}, fill(57, 0x11)), {0xb8}, {0xb9, 0x01}, {0xbf, 1, 2, 3},
		{0xc0}, {0xc1, 0x80}, {0xc1, 0xc0}, {0xc2, 0x81, 0x05}, {0xc1, 0x81}, {0xc2, 0x05}, {0xc1, 0x05, 0x06}, {0xc3, 0x82, 0x00, 0x01},
		cat([]byte{0xf7}, fill(55, 0x01)), cat([]byte{0xf8, 0x37}, fill(55, 0x01)), cat([]byte{0xf8, 0x38}, fill(56, 0x01)), cat([]byte{0xf9, 0x00, 0x38}, fill(56, 0x01)),
		{0xf8, 0x00}, {0xf8}, {0xf9, 0x01}, {0xff, 0xff, 0xff, 0xff, 0xff, 0xff, 0xff, 0xff, 0xff}, {0xbf, 0xff, 0xff, 0xff, 0xff, 0xff, 0xff, 0xff, 0xff},
		{0xfb, 0x7f, 0xff, 0xff, 0xff, 0x01}, {0xba, 0x05, 0xf5, 0xe1, 0x00, 0x01, 0x02}, {0xfa, 0x05, 0xf5, 0xe1, 0x00, 0x01, 0x02},
		{0xc9, 0xbf, 0xff, 0xff, 0xff, 0xff, 0xff, 0xff, 0xff, 0xff}, {0xc5, 0xba, 0x05, 0xf5, 0xe1, 0x00}, {0xc4, 0xc3, 0xc2, 0xc1, 0xc0}, {0xc4, 0xc3, 0xc2, 0xc1, 0xc1},
		{0xc3, 0x01, 0x02, 0x03}, {0xc3, 0x01, 0x02}, {0xc2, 0x01, 0x02, 0x03}, {0xc2, 0x80, 0x80}, {0xc2, 0x00, 0x01}, {0x01, 0x02},
		{0xa0}, cat([]byte{0xa0}, fill(32, 0)), cat([]byte{0xa1, 0x00}, fill(32, 0xee)), cat([]byte{0x94}, fill(20, 0x33)), cat([]byte{0x95}, fill(21, 0x33)),
	}
}

var bvecs = boundaryVectors()

type hostile struct {
	b    []byte
	kind string
}

func genHostile(r *gen.Rand, encs [][]byte, n int) []hostile {
	var hs []hostile
	add := func(b []byte, k string) { hs = append(hs, hostile{b, k}) }
	for len(hs) < n {
		var enc []byte
		if len(encs) > 0 {
			enc = encs[r.Intn(len(encs))]
		}
		switch r.Pick(2, 2, 3, 6, 2, 2, 1, 1) {
		case 0: // truncation
			if len(enc) > 0 {
				add(append([]byte{}, enc[:r.Intn(len(enc))]...), "truncated")
			}
		case 1: // trailing bytes
			tr := r.Bytes(1 + r.Intn(3))
			if r.Bool() {
				tr[0] = hdrBytes[r.Intn(len(hdrBytes))]
			}
			add(append(append([]byte{}, enc...), tr...), "trailing")
		case 2: // byte-level mutation
			if len(enc) == 0 {
				continue
			}
			m := append([]byte{}, enc...)
			i := r.Intn(len(m))
			if r.Chance(2, 3) {
				i = r.Intn(1 + len(m)/4) // headers live mostly at the front
			}
			switch r.Intn(5) {
			case 0:
				m[i] ^= 1 << uint(r.Intn(8))
			case 1:
				m[i] = hdrBytes[r.Intn(len(hdrBytes))]
			case 2:
				m = append(m[:i], m[i+1:]...)
			case 3:
				m = append(m[:i], append([]byte{hdrBytes[r.Intn(len(hdrBytes))]}, m[i:]...)...)
			default:
				m[i]++
			}
			add(m, "mutated")
		case 3: // non-canonical variant of one header, enclosing sizes kept consistent
			nd, rest := parseNode(enc)
			if nd == nil || len(rest) != 0 {
				continue
			}
			idx, used := 0, ""
			b := nd.enc(&idx, r.Intn(nd.count()), r.Intn(12), &used)
			if r.Chance(1, 3) {
				// followed by further input: an element that overruns its list but not the input
				b = append(b, r.Bytes(1+r.Intn(4))...)
				used += "+trailing"
			}
			add(b, "noncanon."+used)
		case 4: // fixed boundary vectors
			add(bvecs[r.Intn(len(bvecs))], "boundary")
		case 5: // short random strings biased to header bytes
			b := r.Bytes(1 + r.Intn(12))
			for i := range b {
				if r.Bool() {
					b[i] = hdrBytes[r.Intn(len(hdrBytes))]
				}
			}
			add(b, "random")
		case 6: // a valid encoding of some other shape
			e, _ := rlp.EncodeToBytes(genItem(r, 3))
			add(e, "valid-item")
		default: // last element of a list is a list that overruns its parent but not the input
			var prefix, inner []byte
			for i := r.Intn(3); i > 0; i-- {
				e, _ := rlp.EncodeToBytes(genItem(r, 1))
				prefix = append(prefix, e...)
			}
			for i := r.Intn(4); i > 0; i-- {
				e, _ := rlp.EncodeToBytes(genItem(r, 0))
				inner = append(inner, e...)
			}
			k := 1 + r.Intn(4)
			small, large := byte(0xC0), byte(0xF7)
			if r.Chance(1, 4) {
				small, large = 0x80, 0xB7 // same with a string
			}
			in := append(headCanon(small, large, len(inner)+k), inner...)
			pl := append(prefix, in...)
			b := append(headCanon(0xC0, 0xF7, len(pl)), pl...)
			b = append(b, r.Bytes(k+r.Intn(3)-r.Intn(2))...)
			add(b, "overrun-parent")
		}
	}
	return hs
}

// ---------------------------------------------------------------- guarded decoding of huge declared sizes
//
// A decoder that trusts a declared size can die with "fatal error: out of memory", which
// recover() cannot catch and which would take the whole harness (and the failing input) with
// it.  Inputs that declare a size above hugeDeclared anywhere are therefore first decoded in a
// child process whose address space is limited; if the child dies, the input is reported by
// the direct oracle (class alloc-crash) and is not decoded in-process.

const hugeDeclared = 256 << 20

// declaresHuge: does any header that a decoder can reach declare more than hugeDeclared bytes?
// Headers are only ever read at structural positions: the start of the input, the first byte
// of a list payload (decoders that descend), the byte after a complete item (all decoders, the
// raw splitter, CountValues).  All of these are followed, whether or not the header is canonical
// or fits the input; bytes inside string contents are never headers.
func declaresHuge(b []byte) bool {
	seen := make([]bool, len(b)+1)
	work := []int{0}
	for len(work) > 0 {
		p := work[len(work)-1]
		work = work[:len(work)-1]
		if p >= len(b) || seen[p] {
			continue
		}
		seen[p] = true
		t := b[p]
		hdr, isList := 1, t >= 0xc0
		var size uint64
		switch {
		case t < 0x80:
			hdr, size = 0, 1
		case t < 0xb8:
			size = uint64(t - 0x80)
		case t < 0xc0:
			hdr = 1 + int(t-0xb7)
		case t < 0xf8:
			size = uint64(t - 0xc0)
		default:
			hdr = 1 + int(t-0xf7)
		}
		if hdr > 1 {
			for j := 1; j < hdr && p+j < len(b); j++ {
				size = size<<8 | uint64(b[p+j])
			}
			if p+hdr > len(b) {
				// truncated size field: what is there may still be used as the high bytes
				size <<= 8 * uint(p+hdr-len(b))
			}
		}
		if size > hugeDeclared {
			return true
		}
		if isList {
			work = append(work, p+hdr)
		}
		if end := uint64(p+hdr) + size; end <= uint64(len(b)) {
			work = append(work, int(end))
		}
	}
	return false
}

func parseType(tok []string) (*T, []string) {
	switch tok[0] {
	case "big", "bool", "bytes", "str", "raw", "iface":
		return &T{K: tok[0]}, tok[1:]
	case "arr":
		n, _ := strconv.Atoi(tok[1])
		return &T{K: "arr", N: n}, tok[2:]
	case "list", "ptr":
		e, r := parseType(tok[1:])
		return &T{K: tok[0], Elem: e}, r
	case "struct":
		k, _ := strconv.Atoi(tok[1])
		t := &T{K: "struct"}
		r := tok[2:]
		for i := 0; i < k; i++ {
			tg := r[0]
			var ft *T
			ft, r = parseType(r[1:])
			f := F{T: ft, Opt: strings.Contains(tg, "o"), Tail: strings.Contains(tg, "t"), Ign: strings.Contains(tg, "i")}
			switch {
			case strings.Contains(tg, "n"):
				f.Nil = "nil"
			case strings.Contains(tg, "S"):
				f.Nil = "nilString"
			case strings.Contains(tg, "L"):
				f.Nil = "nilList"
			}
			t.Fields = append(t.Fields, f)
		}
		return t, r
	}
	bits, _ := strconv.Atoi(tok[0][1:])
	return &T{K: "u", Bits: bits}, tok[1:]
}

// childMain: harness -child ; a worker that reads "<type tokens>\t<hex>" lines, decodes the
// input into the type, into interface{} and into RawValue, and answers "ok" per line.
func childMain() {
	in := bufio.NewReaderSize(os.Stdin, 1<<20)
	for {
		line, err := in.ReadString('\n')
		if err != nil {
			os.Exit(0)
		}
		parts := strings.SplitN(strings.TrimSpace(line), "\t", 2)
		if len(parts) != 2 {
			continue
		}
		t, _ := parseType(strings.Fields(parts[0]))
		b, _ := hex.DecodeString(strings.TrimPrefix(parts[1], "-"))
		for _, tt := range []*T{t, tIface, tRaw} {
			safeDecode("kai", b, reflect.New(tt.rtype()).Interface())
		}
		fmt.Println("ok")
	}
}

// one persistent worker process with a limited address space; restarted when it dies
type guardProc struct {
	cmd  *exec.Cmd
	in   io.WriteCloser
	out  *bufio.Reader
	errb *bytes.Buffer
}

var guard *guardProc

func startGuard() *guardProc {
	cmd := exec.Command("/bin/sh", "-c", `ulimit -v 3000000; exec "$0" -child`, os.Args[0])
	in, err1 := cmd.StdinPipe()
	outp, err2 := cmd.StdoutPipe()
	g := &guardProc{cmd: cmd, in: in, errb: &bytes.Buffer{}}
	cmd.Stderr = g.errb
	if err1 != nil || err2 != nil || cmd.Start() != nil {
		return nil
	}
	g.out = bufio.NewReader(outp)
	return g
}

// guardedOK decodes b in the worker; false (with the reason) if the worker died on it.
var guardDeaths int

const maxGuardDeaths = 25

func guardedOK(t *T, b []byte) (bool, string) {
	if guardDeaths >= maxGuardDeaths {
		// enough concrete failures recorded; restarting the worker for every further input would
		// only slow the run down.  The input is neither decoded here nor in-process.
		return false, "not-run"
	}
	if guard == nil {
		if guard = startGuard(); guard == nil {
			return true, "" // cannot guard: decode in-process as before
		}
	}
	g := guard
	res := make(chan string, 1)
	go func() {
		if _, err := fmt.Fprintf(g.in, "%s\t%s\n", t.tokens(), hexs(b)); err != nil {
			res <- "write:" + err.Error()
			return
		}
		l, err := g.out.ReadString('\n')
		if err != nil {
			res <- "died:" + err.Error()
			return
		}
		res <- strings.TrimSpace(l)
	}()
	var r string
	select {
	case r = <-res:
	case <-time.After(120 * time.Second):
		r = "timeout"
	}
	if r == "ok" {
		return true, ""
	}
	g.cmd.Process.Kill()
	g.cmd.Wait()
	guard = nil
	guardDeaths++
	msg := g.errb.String()
	if k := strings.Index(msg, "\n"); k > 0 {
		msg = msg[:k]
	}
	return false, r + " " + msg
}

// guardHuge returns the indices of the hostile inputs on which the worker process died.
func guardHuge(t *T, hs []hostile) map[int]string {
	crashed := map[int]string{}
	for i, h := range hs {
		if declaresHuge(h.b) {
			o.Count("hostile.guarded-in-child")
			if ok, why := guardedOK(t, h.b); !ok {
				crashed[i] = why
			}
		}
	}
	return crashed
}

// ---------------------------------------------------------------- raw.go ops

func kindStr(k rlp.Kind) string {
	switch k {
	case rlp.Byte:
		return "byte"
	case rlp.String:
		return "string"
	}
	return "list"
}

func rawOps(h []byte) {
	hx := hexs(h)
	guard := func(name string, f func() string) {
		step++
		obs := "PANIC"
		func() {
			defer func() {
				if r := recover(); r != nil {
					o.Fail(step, "panic-"+name, fmt.Sprintf("input=%s %v", hx, r))
				}
			}()
			obs = f()
		}()
		o.Op(name+" "+hx, obs)
	}
	var splitOK bool
	var sk rlp.Kind
	var sc, sr []byte
	guard("S", func() string {
		k, c, r, err := rlp.Split(h)
		if err != nil {
			return "s err " + errClass(err)
		}
		splitOK, sk, sc, sr = true, k, c, r
		return fmt.Sprintf("s %s %s %s", kindStr(k), hexs(c), hexs(r))
	})
	guard("SS", func() string {
		c, r, err := rlp.SplitString(h)
		if err != nil {
			return "s err " + errClass(err)
		}
		return fmt.Sprintf("s %s %s", hexs(c), hexs(r))
	})
	guard("SL", func() string {
		c, r, err := rlp.SplitList(h)
		if err != nil {
			return "s err " + errClass(err)
		}
		return fmt.Sprintf("s %s %s", hexs(c), hexs(r))
	})
	guard("SU", func() string {
		x, r, err := rlp.SplitUint64(h)
		if err != nil {
			return "s err " + errClass(err)
		}
		// direct oracle: an accepted integer is re-created by AppendUint64
		if re := rlp.AppendUint64(nil, x); !bytes.Equal(re, h[:len(h)-len(r)]) {
			o.Fail(step, "noncanonical-splituint", fmt.Sprintf("input=%s value=%d reencodes to %s", hx, x, hexs(re)))
		}
		return fmt.Sprintf("s %d %s", x, hexs(r))
	})
	guard("C", func() string {
		n, err := rlp.CountValues(h)
		if err != nil {
			return "c err " + errClass(err)
		}
		return fmt.Sprintf("c %d", n)
	})
	guard("IT", func() string { return iterOp(h) })
	// direct oracle: Split agrees with the stream decoder on the first value: if Split accepts a
	// string, re-creating its canonical header gives back the consumed prefix
	if splitOK {
		used := h[:len(h)-len(sr)]
		var re []byte
		switch sk {
		case rlp.Byte:
			re = sc
		case rlp.String:
			re = append(headCanon(0x80, 0xB7, len(sc)), sc...)
			if len(sc) == 1 && sc[0] < 0x80 {
				re = sc // a single byte below 0x80 is its own encoding
			}
		default:
			re = append(headCanon(0xC0, 0xF7, len(sc)), sc...)
		}
		if !bytes.Equal(re, used) {
			o.Fail(step, "noncanonical-split", fmt.Sprintf("input=%s kind=%s content=%s", hx, kindStr(sk), hexs(sc)))
		}
	}
}

// ---------------------------------------------------------------- real types

func h20(b []byte) string { return hexs(b) }

func txDescriptor() *T {
	u64, bg := &T{K: "u", Bits: 64}, &T{K: "big"}
	return &T{K: "struct", Fields: []F{{T: u64}, {T: bg}, {T: u64}, {T: &T{K: "ptr", Elem: &T{K: "arr", N: 20}}, Nil: "nil"},
		{T: bg}, {T: &T{K: "bytes"}}, {T: bg}, {T: bg}, {T: bg}, {T: &T{K: "ptr", Elem: &T{K: "arr", N: 32}}, Ign: true}}}
}

func logDescriptor() *T {
	return &T{K: "struct", Fields: []F{{T: &T{K: "arr", N: 20}}, {T: &T{K: "list", Elem: &T{K: "arr", N: 32}}}, {T: &T{K: "bytes"}}}}
}

func receiptDescriptor() *T {
	return &T{K: "struct", Fields: []F{{T: &T{K: "bytes"}}, {T: &T{K: "u", Bits: 64}}, {T: &T{K: "arr", N: 256}},
		{T: &T{K: "list", Elem: logDescriptor()}}}}
}

func receiptStorageDescriptor() *T {
	return &T{K: "struct", Fields: []F{{T: &T{K: "bytes"}}, {T: &T{K: "u", Bits: 64}}, {T: &T{K: "arr", N: 256}}, {T: &T{K: "arr", N: 32}},
		{T: &T{K: "arr", N: 20}}, {T: &T{K: "list", Elem: logDescriptor()}}, {T: &T{K: "u", Bits: 64}}}}
}

func accountDescriptor() *T {
	return &T{K: "struct", Fields: []F{{T: &T{K: "u", Bits: 64}}, {T: &T{K: "big"}}, {T: &T{K: "arr", N: 32}}, {T: &T{K: "bytes"}}}}
}

func slimDescriptor() *T {
	return &T{K: "struct", Fields: []F{{T: &T{K: "u", Bits: 64}}, {T: &T{K: "big"}}, {T: &T{K: "bytes"}}, {T: &T{K: "bytes"}}}}
}

func dumpLogs(logs []*types.Log) string {
	s := fmt.Sprintf("l %d", len(logs))
	for _, l := range logs {
		s += fmt.Sprintf(" s 3 x %s l %d", hexs(l.Address[:]), len(l.Topics))
		for _, tp := range l.Topics {
			s += " x " + hexs(tp[:])
		}
		s += " x " + hexs(l.Data)
	}
	return s
}

func genLogs(r *gen.Rand) []*types.Log {
	n := r.Intn(4)
	logs := make([]*types.Log, n)
	for i := range logs {
		l := &types.Log{Address: common.BytesToAddress(r.Bytes(20)), Data: genBytes(r), Topics: []common.Hash{}}
		for j := r.Intn(4); j > 0; j-- {
			l.Topics = append(l.Topics, common.BytesToHash(r.Bytes(32)))
		}
		logs[i] = l
	}
	return logs
}

// realCase: one of Transaction / Receipt (consensus) / ReceiptForStorage / StateAccount / SlimAccount.
// The real type's encoding is compared with the model (descriptor + value tokens written by hand
// from the public accessors); decode -> encode and hash stability are checked directly.
func realCase(r *gen.Rand, which int) (t *T, encs [][]byte, reDecode func(h []byte)) {
	fail := func(cls, detail string) { o.Fail(step, cls, detail) }
	switch which {
	case 0:
		t = txDescriptor()
		for i := 0; i < 3; i++ {
			var tx *types.Transaction
			data := genBytes(r)
			amount, price := genBig(r), genBig(r)
			to := common.BytesToAddress(r.Bytes(20))
			toTok := "p x " + hexs(to[:])
			if r.Chance(1, 3) {
				tx = types.NewContractCreation(genU64(r, 64), amount, genU64(r, 64), price, data)
				toTok = "nil"
			} else {
				tx = types.NewTransaction(genU64(r, 64), to, amount, genU64(r, 64), price, data)
			}
			v, rr, s := tx.RawSignatureValues()
			step++
			e, err, pan := safeEncode("kai", tx)
			if pan || err != nil {
				fail("real-encode-failed", fmt.Sprint("tx ", err))
				continue
			}
			val := fmt.Sprintf("s 10 u %d u %s u %d %s u %s x %s u %s u %s u %s nil", tx.Nonce(), tx.GasPrice(), tx.Gas(), toTok, tx.Value(), hexs(tx.Data()), v, rr, s)
			o.Op("E "+val, "e "+hexs(e))
			encs = append(encs, e)
			var back types.Transaction
			if err, pan := safeDecode("kai", e, &back); err != nil || pan {
				fail("real-roundtrip", fmt.Sprintf("tx enc=%s err=%v", hexs(e), err))
				continue
			}
			e2, _, _ := safeEncode("kai", &back)
			if !bytes.Equal(e, e2) || back.Hash() != tx.Hash() {
				fail("real-hash-unstable", fmt.Sprintf("tx enc=%s reenc=%s", hexs(e), hexs(e2)))
			}
			// Transaction.DecodeRLP caches ListSize(size of the list ahead) as the transaction's size
			if sz := back.Size(); sz != common.StorageSize(len(e)) || tx.Size() != common.StorageSize(len(e)) {
				fail("real-size-differs", fmt.Sprintf("tx enc=%s (%d bytes) Size() after decode=%v, of the original=%v", hexs(e), len(e), sz, tx.Size()))
			}
			encodePaths(r, "tx", tx, e)
		}
		reDecode = func(h []byte) {
			var x types.Transaction
			err, pan := safeDecode("kai", h, &x)
			if pan {
				fail("panic-decode-real", "tx input="+hexs(h))
			} else if err == nil {
				if re, _, _ := safeEncode("kai", &x); !bytes.Equal(re, h) {
					fail("noncanonical-real", fmt.Sprintf("tx input=%s reenc=%s", hexs(h), hexs(re)))
				}
			}
		}
	case 1, 2:
		storage := which == 2
		t = receiptDescriptor()
		if storage {
			t = receiptStorageDescriptor()
		}
		for i := 0; i < 3; i++ {
			rc := &types.Receipt{CumulativeGasUsed: genU64(r, 64), Logs: genLogs(r), GasUsed: genU64(r, 64),
				TxHash: common.BytesToHash(r.Bytes(32)), ContractAddress: common.BytesToAddress(r.Bytes(20))}
			var status string
			switch r.Intn(3) {
			case 0:
				rc.Status = types.ReceiptStatusFailed
				status = "x -"
			case 1:
				rc.Status = types.ReceiptStatusSuccessful
				status = "x 01"
			default:
				rc.PostState = r.Bytes(32)
				status = "x " + hexs(rc.PostState)
			}
			rc.Bloom = types.CreateBloom(types.Receipts{rc})
			step++
			var e []byte
			var err error
			var pan bool
			var val string
			if storage {
				e, err, pan = safeEncode("kai", (*types.ReceiptForStorage)(rc))
				val = fmt.Sprintf("s 7 %s u %d x %s x %s x %s %s u %d", status, rc.CumulativeGasUsed, hexs(rc.Bloom[:]), hexs(rc.TxHash[:]), hexs(rc.ContractAddress[:]), dumpLogs(rc.Logs), rc.GasUsed)
			} else {
				e, err, pan = safeEncode("kai", rc)
				val = fmt.Sprintf("s 4 %s u %d x %s %s", status, rc.CumulativeGasUsed, hexs(rc.Bloom[:]), dumpLogs(rc.Logs))
			}
			if pan || err != nil {
				fail("real-encode-failed", fmt.Sprint("receipt ", err))
				continue
			}
			o.Op("E "+val, "e "+hexs(e))
			encs = append(encs, e)
			if storage {
				encodePaths(r, "receipt-storage", (*types.ReceiptForStorage)(rc), e)
			} else {
				encodePaths(r, "receipt", rc, e)
			}
			var e2 []byte
			if storage {
				var back types.ReceiptForStorage
				if err, pan := safeDecode("kai", e, &back); err != nil || pan {
					fail("real-roundtrip", fmt.Sprintf("receipt-storage enc=%s err=%v", hexs(e), err))
					continue
				}
				e2, _, _ = safeEncode("kai", &back)
			} else {
				var back types.Receipt
				if err, pan := safeDecode("kai", e, &back); err != nil || pan {
					fail("real-roundtrip", fmt.Sprintf("receipt enc=%s err=%v", hexs(e), err))
					continue
				}
				e2, _, _ = safeEncode("kai", &back)
			}
			if !bytes.Equal(e, e2) {
				fail("real-hash-unstable", fmt.Sprintf("receipt storage=%v enc=%s reenc=%s", storage, hexs(e), hexs(e2)))
			}
		}
		reDecode = func(h []byte) {
			var err error
			var pan bool
			var re []byte
			if storage {
				var x types.ReceiptForStorage
				if err, pan = safeDecode("kai", h, &x); err == nil && !pan {
					re, _, _ = safeEncode("kai", &x)
				}
			} else {
				var x types.Receipt
				if err, pan = safeDecode("kai", h, &x); err == nil && !pan {
					re, _, _ = safeEncode("kai", &x)
				}
			}
			if pan {
				fail("panic-decode-real", "receipt input="+hexs(h))
			} else if err == nil && !bytes.Equal(re, h) {
				fail("noncanonical-real", fmt.Sprintf("receipt storage=%v input=%s reenc=%s", storage, hexs(h), hexs(re)))
			}
		}
	default:
		slim := which == 4
		t = accountDescriptor()
		if slim {
			t = slimDescriptor()
		}
		for i := 0; i < 3; i++ {
			acc := types.StateAccount{Nonce: genU64(r, 64), Balance: genBig(r), Root: common.BytesToHash(r.Bytes(32)), CodeHash: r.Bytes(32)}
			if r.Chance(1, 3) {
				acc.Root = types.EmptyRootHash
			}
			if r.Chance(1, 3) {
				acc.CodeHash = types.EmptyCodeHash[:]
			}
			step++
			if slim {
				e := types.SlimAccountRLP(acc)
				rootTok, codeTok := "x "+hexs(acc.Root[:]), "x "+hexs(acc.CodeHash)
				if acc.Root == types.EmptyRootHash {
					rootTok = "nil"
				}
				if bytes.Equal(acc.CodeHash, types.EmptyCodeHash[:]) {
					codeTok = "nil"
				}
				o.Op(fmt.Sprintf("E s 4 u %d u %s %s %s", acc.Nonce, acc.Balance, rootTok, codeTok), "e "+hexs(e))
				encs = append(encs, e)
				back, err := types.FullAccount(e)
				if err != nil || back.Nonce != acc.Nonce || back.Balance.Cmp(acc.Balance) != 0 || back.Root != acc.Root || !bytes.Equal(back.CodeHash, acc.CodeHash) {
					fail("real-roundtrip", fmt.Sprintf("slim account enc=%s err=%v", hexs(e), err))
				} else if e2 := types.SlimAccountRLP(*back); !bytes.Equal(e, e2) {
					fail("real-hash-unstable", fmt.Sprintf("slim account enc=%s reenc=%s", hexs(e), hexs(e2)))
				}
			} else {
				e, err, pan := safeEncode("kai", &acc)
				if pan || err != nil {
					fail("real-encode-failed", fmt.Sprint("account ", err))
					continue
				}
				o.Op(fmt.Sprintf("E s 4 u %d u %s x %s x %s", acc.Nonce, acc.Balance, hexs(acc.Root[:]), hexs(acc.CodeHash)), "e "+hexs(e))
				encs = append(encs, e)
				var back types.StateAccount
				if err, pan := safeDecode("kai", e, &back); err != nil || pan {
					fail("real-roundtrip", fmt.Sprintf("account enc=%s err=%v", hexs(e), err))
					continue
				}
				if e2, _, _ := safeEncode("kai", &back); !bytes.Equal(e, e2) {
					fail("real-hash-unstable", fmt.Sprintf("account enc=%s reenc=%s", hexs(e), hexs(e2)))
				}
			}
		}
		reDecode = func(h []byte) {
			var re []byte
			var err error
			var pan bool
			if slim {
				var x types.SlimAccount
				if err, pan = safeDecode("kai", h, &x); err == nil && !pan {
					re, _, _ = safeEncode("kai", &x)
				}
			} else {
				var x types.StateAccount
				if err, pan = safeDecode("kai", h, &x); err == nil && !pan {
					re, _, _ = safeEncode("kai", &x)
				}
			}
			if pan {
				fail("panic-decode-real", "account input="+hexs(h))
			} else if err == nil && !bytes.Equal(re, h) {
				fail("noncanonical-real", fmt.Sprintf("account slim=%v input=%s reenc=%s", slim, hexs(h), hexs(re)))
			}
		}
	}
	return
}

// ---------------------------------------------------------------- recursive type families
//
// reflect.StructOf cannot build recursive types, so a handful of named ones are declared here.
// They reach themselves through a slice, a slice of slices, a tail slice, a pointer, a slice of
// pointers, and as a mutually recursive pair.  The model sees a value of such a type through a
// descriptor unfolded to a finite depth (recDesc).  lib/rlp resolves writers/decoders of
// recursive types through placeholders in a process-global type cache, so the outcome may depend
// on which member of a family is handed to the package first: every recursive case does its
// value operations in a FRESH child process (harness -rec) after a generated first-use preamble.

type RecTree struct {
	X    uint64
	Kids []RecTree
}
type RecForest struct {
	X    uint64
	Kids [][]RecForest
}
type RecTail struct {
	X    uint64
	Kids []RecTail `rlp:"tail"`
}
type RecPtr struct {
	X    uint64
	Next *RecPtr `rlp:"nil"`
}
type RecPS struct {
	X    uint64
	Kids []*RecPS
}
type RecA struct {
	N  uint64
	Bs []RecB
}
type RecB struct {
	S  []byte
	As []RecA
}

const nRecFam = 6

var recFamNames = []string{"tree-slice", "forest-slice-of-slices", "tail-slice", "pointer-nil", "slice-of-pointers", "mutual-pair"}

func stubT() *T { return &T{K: "u", Bits: 16, rt: reflect.TypeOf(uint16(0))} }

func u64T() *T { return &T{K: "u", Bits: 64, rt: reflect.TypeOf(uint64(0))} }

// recDesc unfolds family fam to depth d (a value with at most d levels of children fits).
func recDesc(fam, d int) *T {
	var self reflect.Type
	switch fam {
	case 0:
		self = reflect.TypeOf(RecTree{})
	case 1:
		self = reflect.TypeOf(RecForest{})
	case 2:
		self = reflect.TypeOf(RecTail{})
	case 3:
		self = reflect.TypeOf(RecPtr{})
	case 4:
		self = reflect.TypeOf(RecPS{})
	default:
		return recDescA(d)
	}
	child := stubT()
	if d > 0 {
		child = recDesc(fam, d-1)
	}
	st := &T{K: "struct", rt: self}
	switch fam {
	case 0:
		st.Fields = []F{{T: u64T()}, {T: &T{K: "list", Elem: child, rt: reflect.SliceOf(self)}}}
	case 1:
		inner := &T{K: "list", Elem: child, rt: reflect.SliceOf(self)}
		st.Fields = []F{{T: u64T()}, {T: &T{K: "list", Elem: inner, rt: reflect.SliceOf(reflect.SliceOf(self))}}}
	case 2:
		st.Fields = []F{{T: u64T()}, {T: &T{K: "list", Elem: child, rt: reflect.SliceOf(self)}, Tail: true}}
	case 3:
		st.Fields = []F{{T: u64T()}, {T: &T{K: "ptr", Elem: child, rt: reflect.PtrTo(self)}, Nil: "nil"}}
	case 4:
		pt := &T{K: "ptr", Elem: child, rt: reflect.PtrTo(self)}
		st.Fields = []F{{T: u64T()}, {T: &T{K: "list", Elem: pt, rt: reflect.SliceOf(reflect.PtrTo(self))}}}
	}
	return st
}

func recDescA(d int) *T {
	child := stubT()
	if d > 0 {
		child = recDescB(d - 1)
	}
	return &T{K: "struct", rt: reflect.TypeOf(RecA{}), Fields: []F{{T: u64T()},
		{T: &T{K: "list", Elem: child, rt: reflect.TypeOf([]RecB{})}}}}
}

func recDescB(d int) *T {
	child := stubT()
	if d > 0 {
		child = recDescA(d - 1)
	}
	return &T{K: "struct", rt: reflect.TypeOf(RecB{}), Fields: []F{{T: &T{K: "bytes", rt: reflect.TypeOf([]byte{})}},
		{T: &T{K: "list", Elem: child, rt: reflect.TypeOf([]RecA{})}}}}
}

func genTree(r *gen.Rand, d int) RecTree {
	v := RecTree{X: genU64(r, 64), Kids: []RecTree{}}
	if d > 0 {
		for n := r.Intn(4); n > 0; n-- {
			v.Kids = append(v.Kids, genTree(r, d-1-r.Intn(d)))
		}
	}
	return v
}

func genForest(r *gen.Rand, d int) RecForest {
	v := RecForest{X: genU64(r, 64), Kids: [][]RecForest{}}
	if d > 0 {
		for n := r.Intn(3); n > 0; n-- {
			row := []RecForest{}
			for m := r.Intn(3); m > 0; m-- {
				row = append(row, genForest(r, d-1-r.Intn(d)))
			}
			v.Kids = append(v.Kids, row)
		}
	}
	return v
}

func genTail(r *gen.Rand, d int) RecTail {
	v := RecTail{X: genU64(r, 64), Kids: []RecTail{}}
	if d > 0 {
		for n := r.Intn(4); n > 0; n-- {
			v.Kids = append(v.Kids, genTail(r, d-1-r.Intn(d)))
		}
	}
	return v
}

func genPtr(r *gen.Rand, d int) RecPtr {
	v := RecPtr{X: genU64(r, 64)}
	if d > 0 {
		n := genPtr(r, d-1)
		v.Next = &n
	}
	return v
}

func genPS(r *gen.Rand, d int) RecPS {
	v := RecPS{X: genU64(r, 64), Kids: []*RecPS{}}
	if d > 0 {
		for n := r.Intn(4); n > 0; n-- {
			k := genPS(r, d-1-r.Intn(d))
			v.Kids = append(v.Kids, &k)
		}
	}
	return v
}

func genA(r *gen.Rand, d int) RecA {
	v := RecA{N: genU64(r, 64), Bs: []RecB{}}
	if d > 0 {
		for n := r.Intn(3); n > 0; n-- {
			b := RecB{S: genBytes(r), As: []RecA{}}
			if len(b.S) > 40 {
				b.S = b.S[:40]
			}
			if d > 1 {
				for m := r.Intn(3); m > 0; m-- {
					b.As = append(b.As, genA(r, d-2))
				}
			}
			v.Bs = append(v.Bs, b)
		}
	}
	return v
}

const nRecOrders = 6

var recOrderNames = []string{"value-first", "slice-first", "decode-first", "pointer-first", "slice-of-slices-first", "container-first"}

// recPlan draws the family, the first-use order and the values of a recursive case; parent and
// child call it on the same PRNG state.
func recPlan(r *gen.Rand) (fam, order int, vals []interface{}) {
	fam, order = r.Intn(nRecFam), r.Intn(nRecOrders)
	for i := 0; i < 3; i++ {
		d := r.Intn(4)
		if i == 0 && d == 0 {
			d = 1 + r.Intn(3)
		}
		switch fam {
		case 0:
			vals = append(vals, genTree(r, d))
		case 1:
			vals = append(vals, genForest(r, d))
		case 2:
			vals = append(vals, genTail(r, d))
		case 3:
			vals = append(vals, genPtr(r, d))
		case 4:
			vals = append(vals, genPS(r, d))
		default:
			vals = append(vals, genA(r, d))
		}
	}
	return
}

// recPreamble touches the type cache in the drawn order before any value is encoded.
func recPreamble(fam, order int) {
	self := recDesc(fam, 0).rt
	var first interface{}
	switch order {
	case 0:
		return
	case 1:
		first = reflect.MakeSlice(reflect.SliceOf(self), 0, 0).Interface()
	case 2:
		e, _, _ := safeEncode("geth", reflect.New(self).Elem().Interface())
		safeDecode("kai", e, reflect.New(self).Interface())
		return
	case 3:
		first = reflect.New(self).Interface()
	case 4:
		first = reflect.MakeSlice(reflect.SliceOf(reflect.SliceOf(self)), 0, 0).Interface()
	default:
		first = reflect.New(reflect.StructOf([]reflect.StructField{{Name: "A", Type: reflect.TypeOf(uint64(0))}, {Name: "B", Type: self}})).Elem().Interface()
	}
	safeEncode("kai", first)
}

// recChildMain: harness -rec <seed> <case>; prints, per value, "e <hex>" | "PANIC <msg>", then
// (if encoded) the decode observable and the arbiter verdict.
func recChildMain(args []string) {
	seed, _ := strconv.ParseUint(args[0], 10, 64)
	c, _ := strconv.ParseUint(args[1], 10, 64)
	r := gen.New(seed).Fork(c)
	fam, order, vals := recPlan(r)
	t := recDesc(fam, 4)
	recPreamble(fam, order)
	w := bufio.NewWriter(os.Stdout)
	defer w.Flush()
	for _, v := range vals {
		e, err, pan := safeEncode("kai", v)
		if pan {
			fmt.Fprintf(w, "PANIC %s\n", strings.ReplaceAll(fmt.Sprint(err), " ", "_"))
			continue
		}
		if err != nil {
			fmt.Fprintf(w, "e err %s\n", errClass(err))
			continue
		}
		fmt.Fprintf(w, "e %s\n", hexs(e))
		p := reflect.New(t.rt)
		if derr, dpan := safeDecode("kai", e, p.Interface()); dpan {
			fmt.Fprintln(w, "PANIC")
		} else if derr != nil {
			fmt.Fprintf(w, "d err %s\n", errClass(derr))
		} else {
			fmt.Fprintf(w, "d ok %s\n", dump(t, p.Elem()))
		}
		if g, gerr, gpan := safeEncode("geth", v); gpan || gerr != nil || !bytes.Equal(g, e) {
			fmt.Fprintf(w, "a differs %s\n", hexs(g))
		} else {
			fmt.Fprintln(w, "a same")
		}
	}
	w.Flush()
	os.Exit(0)
}

func runRecChild(c int) []string {
	cmd := exec.Command(os.Args[0], "-rec", fmt.Sprint(*out.Seed), fmt.Sprint(c))
	var outb bytes.Buffer
	cmd.Stdout = &outb
	done := make(chan error, 1)
	if cmd.Start() != nil {
		return nil
	}
	go func() { done <- cmd.Wait() }()
	select {
	case <-done:
	case <-time.After(120 * time.Second):
		cmd.Process.Kill()
	}
	var lines []string
	for _, l := range strings.Split(outb.String(), "\n") {
		if l != "" {
			lines = append(lines, l)
		}
	}
	return lines
}

// recCase: value operations of a recursive case (done in the child), oracles on its answers.
func recCase(r *gen.Rand, c int) (t *T, encs [][]byte) {
	fam, order, vals := recPlan(r)
	t = recDesc(fam, 4)
	o.InOnly("T " + t.tokens())
	o.Count("case.recursive." + recFamNames[fam])
	o.Count("recursive.first-use." + recOrderNames[order])
	o.Mark(fmt.Sprintf("rec:%d:%d", fam, order))
	lines := runRecChild(c)
	next := func() string {
		if len(lines) == 0 {
			return "CHILD-DIED"
		}
		l := lines[0]
		lines = lines[1:]
		return l
	}
	ctx := fmt.Sprintf("family=%s first-use=%s (fresh process)", recFamNames[fam], recOrderNames[order])
	for _, v := range vals {
		step++
		ds := dump(t, reflect.ValueOf(v))
		el := next()
		o.Op("E "+ds, el)
		if !strings.HasPrefix(el, "e ") || strings.HasPrefix(el, "e err") {
			o.Fail(step, "panic-encode-recursive", fmt.Sprintf("%s type=[%s] value=[%s] EncodeToBytes: %s", ctx, t.tokens(), ds, el))
			continue
		}
		e, _ := hex.DecodeString(strings.TrimPrefix(strings.TrimPrefix(el, "e "), "-"))
		encs = append(encs, e)
		dl := next()
		o.Op("D "+hexs(e), dl)
		if dl != "d ok "+ds {
			o.Fail(step, "roundtrip-recursive", fmt.Sprintf("%s type=[%s] value=[%s] enc=%s decode: %s", ctx, t.tokens(), ds, hexs(e), dl))
		}
		if al := next(); al != "a same" {
			o.Fail(step, "arbiter-encode-recursive", fmt.Sprintf("%s type=[%s] value=[%s] kai=%s geth: %s", ctx, t.tokens(), ds, hexs(e), al))
		}
	}
	return
}

// depth of descriptor needed to dump whatever an input can decode to
func neededDepth(hs []hostile) int {
	d := 4
	for _, h := range hs {
		n := 2
		for _, b := range h.b {
			if b >= 0xc0 {
				n++
			}
		}
		if n > d {
			d = n
		}
	}
	return d
}

// ---------------------------------------------------------------- cases

var (
	tIface = &T{K: "iface"}
	tRaw   = &T{K: "raw"}
)

func runCase(r *gen.Rand, c int) {
	step = 0
	o.Case(c, fmt.Sprintf("CASE %d", c))
	var t *T
	var encs [][]byte
	var reDecode func([]byte)
	real := c%8 == 7
	rec := c%16 == 3
	edge := c%16 == 11
	wide := c%16 == 13
	recFam := 0
	if c%64 == 5 {
		unlimitedReader(r)
	}
	if c%64 == 1 {
		negativeBigChecks()
	}
	if wide {
		t, encs = wideCase(r)
	} else if edge {
		o.Count("case.edge-list")
		encs = edgeCase(r)
		t = tIface
		o.InOnly("T iface")
	} else if rec {
		t, encs = recCase(r, c)
		for recFam = 0; recFam < nRecFam && recDesc(recFam, 0).rt != t.rt; recFam++ {
		}
	} else if real {
		which := r.Intn(6)
		// the descriptor line must precede the E ops that realCase emits
		switch which {
		case 5:
			t = headerDescriptor()
		case 0:
			t = txDescriptor()
		case 1:
			t = receiptDescriptor()
		case 2:
			t = receiptStorageDescriptor()
		case 3:
			t = accountDescriptor()
		default:
			t = slimDescriptor()
		}
		o.InOnly("T " + t.tokens())
		o.Count("case.real." + []string{"tx", "receipt", "receipt-storage", "account", "slim-account", "header"}[which])
		if which == 5 {
			encs, reDecode = headerCase(r)
		} else {
			t, encs, reDecode = realCase(r, which)
		}
		o.Mark("real:" + fmt.Sprint(which, len(encs)))
		// hand-mutated fields: accepted by the real type's own decoder => re-encodes to the input
		fieldMutants(r, encs, reDecode, 8)
		if (which == 1 || which == 2) && len(encs) > 0 {
			receiptStatusMutants(r, encs[0], reDecode)
		}
		if c%16 == 7 {
			otherRealDecoders(r)
		}
	} else {
		if r.Chance(2, 3) {
			t = genStruct(r, 3)
		} else {
			t = genType(r, 3)
		}
		if t.hasOptional() || t.any(func(x *T) bool {
			for _, f := range x.Fields {
				if f.Ign {
					return true
				}
			}
			return false
		}) {
			// the zero value of a big.Int held by value is the integer 0, the model's zero big integer
			// is the nil pointer: by-value big integers only appear in types in which no zero value
			// is ever tested or created (no optional fields, no ignored fields)
			t.any(func(x *T) bool {
				if x.K == "bigv" {
					x.K = "big"
				}
				return false
			})
		}
		o.InOnly("T " + t.tokens())
		o.Count("case.generated")
		o.Count("type.top." + t.K)
		if t.hasOptional() {
			o.Count("type.has-optional")
		}
		if t.hasTags() {
			o.Count("type.has-tags")
		} else {
			o.Count("type.tag-free")
		}
		o.Mark("type:" + t.tokens())
		rt := t.rtype()
		arb := !t.hasOptional() && !t.hasRaw()
		for i := 0; i < 3; i++ {
			step++
			v := reflect.New(rt).Elem()
			wild := r.Chance(1, 4)
			genVal(r, t, F{}, v, wild)
			if t.K == "iface" && v.IsNil() {
				// EncodeToBytes(nil) is an API misuse (reflect panics on the untyped nil), not an input
				genVal(r, t, F{}, v, false)
			}
			ds := dump(t, v)
			e, err, pan := safeEncode("kai", v.Interface())
			if pan {
				o.Fail(step, "panic-encode", fmt.Sprintf("type=[%s] value=[%s] %v", t.tokens(), ds, err))
				o.Op("E "+ds, "PANIC")
				continue
			}
			if err != nil {
				// every generated value is in the encoder's domain (no negative big integers)
				o.Fail(step, "encode-rejected", fmt.Sprintf("type=[%s] value=[%s] %v", t.tokens(), ds, err))
				o.Op("E "+ds, "e err "+errClass(err))
				continue
			}
			o.Op("E "+ds, "e "+hexs(e))
			o.Count("value.encoded")
			// determinism
			if e2, _, _ := safeEncode("kai", v.Interface()); !bytes.Equal(e, e2) {
				o.Fail(step, "encode-nondeterministic", fmt.Sprintf("type=[%s] value=[%s]", t.tokens(), ds))
			}
			encodePaths(r, "type=["+t.tokens()+"] value=["+ds+"]", v.Interface(), e)
			// reference implementation
			if arb {
				o.Count("value.arbiter-compared")
				if g, gerr, gpan := safeEncode("geth", v.Interface()); gpan || gerr != nil || !bytes.Equal(g, e) {
					o.Fail(step, "arbiter-encode", fmt.Sprintf("type=[%s] value=[%s] kai=%s geth=%s %v", t.tokens(), ds, hexs(e), hexs(g), gerr))
				}
			}
			// round trip
			isWf := wf(t, F{}, v)
			p := reflect.New(rt)
			derr, dpan := safeDecode("kai", e, p.Interface())
			switch {
			case dpan:
				o.Fail(step, "panic-decode", fmt.Sprintf("type=[%s] input=%s", t.tokens(), hexs(e)))
			case derr != nil:
				if isWf {
					o.Fail(step, "roundtrip-rejected", fmt.Sprintf("type=[%s] value=[%s] enc=%s err=%v", t.tokens(), ds, hexs(e), derr))
				}
			default:
				d1 := dump(t, p.Elem())
				if isWf && d1 != ds {
					o.Fail(step, "roundtrip-differs", fmt.Sprintf("type=[%s] value=[%s] enc=%s decoded=[%s]", t.tokens(), ds, hexs(e), d1))
				}
				// the decoder's image is a fixed point
				e2, _, _ := safeEncode("kai", p.Elem().Interface())
				if !bytes.Equal(e, e2) {
					o.Fail(step, canonClass(t, e, e2, d1), fmt.Sprintf("type=[%s] value=[%s] enc=%s decoded=[%s] reenc=%s", t.tokens(), ds, hexs(e), d1, hexs(e2)))
				}
			}
			if isWf {
				o.Count("value.wf")
			} else {
				o.Count("value.wild")
			}
			if len(e) < 600 {
				encs = append(encs, e)
			}
			o.Op("D "+hexs(e), decodeOp(t, e, arb))
		}
	}
	hs := genHostile(r, encs, 10)
	if rec {
		// hostile strings are decoded in-process into the named recursive type; the descriptor is
		// unfolded as deep as any of them can nest
		t = recDesc(recFam, neededDepth(hs))
		o.InOnly("T " + t.tokens())
	}
	crashed := guardHuge(t, hs)
	for i, h := range hs {
		o.Count("hostile." + h.kind)
		if why, bad := crashed[i]; bad && why == "not-run" {
			step++
			o.Count("hostile.not-run-after-crashes")
			o.Op("D "+hexs(h.b), "CRASH-SKIPPED")
			continue
		} else if bad {
			step++
			o.Count("hostile.crashed-child")
			o.Fail(step, "alloc-crash", fmt.Sprintf("type=[%s] input=%s (%d bytes) kills a decoding process whose address space is limited to 3 GB: %s", t.tokens(), hexs(h.b), len(h.b), strings.ReplaceAll(why, " ", "_")))
			o.Op("D "+hexs(h.b), "CRASH")
			continue
		}
		obs := decodeOp(t, h.b, true)
		o.Op("D "+hexs(h.b), obs)
		if strings.HasPrefix(obs, "d ok") {
			o.Count("hostile.accepted")
		} else {
			o.Count("hostile.rejected." + strings.TrimPrefix(obs, "d err "))
		}
		if reDecode != nil {
			reDecode(h.b)
		}
	}
	o.InOnly("T iface")
	for i, h := range hs {
		if _, bad := crashed[i]; bad {
			o.Op("D "+hexs(h.b), "CRASH")
			continue
		}
		o.Op("D "+hexs(h.b), decodeOp(tIface, h.b, true))
	}
	o.InOnly("T raw")
	for i, h := range hs {
		if _, bad := crashed[i]; bad {
			o.Op("D "+hexs(h.b), "CRASH")
			continue
		}
		o.Op("D "+hexs(h.b), decodeOp(tRaw, h.b, false))
	}
	for _, h := range hs {
		rawOps(h.b)
	}
	// several values in a row on one Stream, the Stream used by hand, the EncoderBuffer, raw helpers
	if !rec {
		o.InOnly("T " + t.tokens())
		multiStream(r, t, encs, hs)
		multiStream(r, t, encs, hs)
	}
	for i := 0; i < 3; i++ {
		var b []byte
		switch {
		case r.Chance(1, 2) && len(encs) > 0:
			b = encs[r.Intn(len(encs))]
		case r.Chance(1, 2):
			b, _ = rlp.EncodeToBytes(genItem(r, 3))
		default:
			b = hs[r.Intn(len(hs))].b
			if declaresHuge(b) {
				b = bvecs[r.Intn(len(bvecs))]
			}
		}
		streamScript(r, b)
	}
	if c%4 == 2 {
		ebOp(r, genItem(r, 3))
		rawHelperOps(r)
	}
	// CountValues / Split on the payload of a list encoding (several values in a row)
	for _, e := range encs {
		if c, _, err := rlp.SplitList(e); err == nil && len(c) > 0 {
			rawOps(c)
			break
		}
	}
}

func main() {
	if len(os.Args) > 1 && os.Args[1] == "-child" {
		childMain()
	}
	if len(os.Args) > 2 && os.Args[1] == "-unl" {
		unlChildMain(os.Args[2])
	}
	if len(os.Args) > 3 && os.Args[1] == "-rec" {
		recChildMain(os.Args[2:])
	}
	out.WriteFacts(func() string { return "(* C16 has no source-derived constants *)\n" })
	o = out.Open()
	o.Rule = "a case is one type descriptor (generated struct/list/pointer/scalar type with rlp tags, or the descriptor of Transaction/Receipt/ReceiptForStorage/StateAccount/SlimAccount) with 3 values (encode, decode, round trip) and 10 hostile strings decoded into the type, into interface{} and into RawValue and fed to Split*/CountValues; non-trivial = every case; distinct by type descriptor"
	root := gen.New(*out.Seed)
	for c := 0; c < *out.N; c++ {
		if !out.Want(c) {
			continue
		}
		runCase(root.Fork(uint64(c)), c)
	}
	o.Close()
}
