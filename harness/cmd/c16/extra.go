// C16 harness, second part: the entry points of lib/rlp other than EncodeToBytes/DecodeBytes that
// the node uses (types/*_rlp.go, trie, journals): the three output paths of the encoder
// (makeBytes / writeTo / encReader), the EncoderBuffer API, AppendUint64 / IntSize / ListSize, the
// list iterator, several values in a row on one Stream, the Stream used by hand (Kind / List /
// ListEnd / Bytes / Uint / Bool / Raw / ReadBytes), lists whose payload length sits on a header
// boundary, types.Header.
package main

import (
	"bytes"
	"encoding/hex"
	"fmt"
	"io"
	"os"
	"os/exec"
	"math/big"
	"reflect"
	"strings"
	"time"

	geth "github.com/ethereum/go-ethereum/rlp"
	"github.com/kardiachain/go-kardia/lib/common"
	"github.com/kardiachain/go-kardia/lib/rlp"
	"github.com/kardiachain/go-kardia/types"

	"verif/harness/internal/gen"
)

func catch(f func()) (msg string, panicked bool) {
	defer func() {
		if r := recover(); r != nil {
			panicked = true
			msg = fmt.Sprint(r)
		}
	}()
	f()
	return
}

// ---------------------------------------------------------------- the three output paths of the encoder

// encodePaths: e is EncodeToBytes(v) (encBuffer.makeBytes/copyTo).  Encode into a plain
// io.Writer goes through encBuffer.writeTo (this is how rlpHash feeds the hasher) and
// EncodeToReader through encReader; all three must give the same bytes.
func encodePaths(r *gen.Rand, ctx string, v interface{}, e []byte) {
	var buf bytes.Buffer
	var err error
	if msg, pan := catch(func() { err = rlp.Encode(&buf, v) }); pan || err != nil || !bytes.Equal(buf.Bytes(), e) {
		o.Fail(step, "encode-path-differs", fmt.Sprintf("%s Encode(io.Writer) gives %s, EncodeToBytes gives %s (%v %s)", ctx, hexs(buf.Bytes()), hexs(e), err, msg))
	}
	var got []byte
	var size int
	chunk := 1 + r.Intn(9)
	if r.Chance(1, 4) {
		chunk = 1 + r.Intn(300)
	}
	msg, pan := catch(func() {
		var rd io.Reader
		if size, rd, err = rlp.EncodeToReader(v); err != nil {
			return
		}
		tmp := make([]byte, chunk)
		for i := 0; i < len(e)+16; i++ {
			n, rerr := rd.Read(tmp)
			got = append(got, tmp[:n]...)
			if rerr != nil {
				break
			}
		}
	})
	if pan || err != nil || size != len(e) || !bytes.Equal(got, e) {
		o.Fail(step, "encode-path-differs", fmt.Sprintf("%s EncodeToReader (chunks of %d) gives size=%d %s, EncodeToBytes gives %s (%v %s)", ctx, chunk, size, hexs(got), hexs(e), err, msg))
	}
}

// ---------------------------------------------------------------- EncoderBuffer

func canonUint(b []byte) (uint64, bool) {
	if len(b) == 0 || len(b) > 8 || b[0] == 0 {
		return 0, false
	}
	var x uint64
	for _, c := range b {
		x = x<<8 | uint64(c)
	}
	return x, true
}

// ebWalk writes item x through the EncoderBuffer API; a string is written by any of the calls
// that must produce the string encoding of exactly these bytes.
func ebWalk(r *gen.Rand, w rlp.EncoderBuffer, x interface{}) {
	switch y := x.(type) {
	case []byte:
		u, isU := canonUint(y)
		switch k := r.Intn(8); {
		case k == 0 && isU:
			w.WriteUint64(u)
		case k == 1 && (len(y) == 0 || y[0] != 0):
			w.WriteBigInt(new(big.Int).SetBytes(y))
		case k == 2:
			w.WriteString(string(y))
		case k == 3 && len(y) == 0:
			w.WriteBool(false)
		case k == 3 && len(y) == 1 && y[0] == 1:
			w.WriteBool(true)
		case k == 4:
			e, _ := rlp.EncodeToBytes(y)
			w.Write(e)
		default:
			w.WriteBytes(y)
		}
	case []interface{}:
		idx := w.List()
		for _, c := range y {
			ebWalk(r, w, c)
		}
		w.ListEnd(idx)
	}
}

// ebItem encodes its item from inside an outer encoding (NewEncoderBuffer on the outer encBuffer)
type ebItem struct {
	r *gen.Rand
	x interface{}
}

func (e *ebItem) EncodeRLP(w io.Writer) error {
	eb := rlp.NewEncoderBuffer(w)
	ebWalk(e.r, eb, e.x)
	return eb.Flush()
}

func ebOp(r *gen.Rand, x interface{}) []byte {
	step++
	ds := dumpItem(x)
	var out1, out2, out3, out4 []byte
	prefix := []byte{0xde, 0xad}
	msg, pan := catch(func() {
		w := rlp.NewEncoderBuffer(nil)
		ebWalk(r, w, x)
		out1 = w.ToBytes()
		out2 = w.AppendToBytes(append([]byte{}, prefix...))
		w.Flush()
		var bb bytes.Buffer
		w2 := rlp.NewEncoderBuffer(&bb)
		ebWalk(r, w2, x)
		if err := w2.Flush(); err != nil {
			panic(err)
		}
		out3 = append([]byte{}, bb.Bytes()...)
		var err error
		if out4, err = rlp.EncodeToBytes([]interface{}{uint64(7), &ebItem{r, x}, []byte("x")}); err != nil {
			panic(err)
		}
	})
	if pan {
		o.Fail(step, "panic-encoderbuffer", fmt.Sprintf("item=[%s] %s", ds, msg))
		o.Op("EB "+ds, "PANIC")
		return nil
	}
	o.Op("EB "+ds, "e "+hexs(out1))
	if !bytes.HasPrefix(out2, prefix) || !bytes.Equal(out2[len(prefix):], out1) || !bytes.Equal(out3, out1) {
		o.Fail(step, "encode-path-differs", fmt.Sprintf("EncoderBuffer item=[%s] ToBytes=%s AppendToBytes=%s Flush(writer)=%s", ds, hexs(out1), hexs(out2), hexs(out3)))
	}
	g, gerr, gpan := safeEncode("geth", x)
	if gpan || gerr != nil || !bytes.Equal(g, out1) {
		o.Fail(step, "arbiter-encode", fmt.Sprintf("EncoderBuffer item=[%s] kai=%s geth=%s", ds, hexs(out1), hexs(g)))
	}
	if g4, gerr, gpan := safeEncode("geth", []interface{}{uint64(7), x, []byte("x")}); gpan || gerr != nil || !bytes.Equal(g4, out4) {
		o.Fail(step, "arbiter-encode", fmt.Sprintf("EncoderBuffer inside an outer encoding item=[%s] kai=%s geth=%s", ds, hexs(out4), hexs(g4)))
	}
	return out1
}

// ---------------------------------------------------------------- lists whose payload sits on a header boundary

// strOfEncLen: a string whose encoding has exactly n bytes (not every n is possible)
func strOfEncLen(r *gen.Rand, n int) ([]byte, bool) {
	switch {
	case n == 1:
		return []byte{byte(r.Intn(0x80))}, true
	case n == 2:
		return []byte{0x80 + byte(r.Intn(0x80))}, true
	case n >= 3 && n <= 56:
		return r.Bytes(n - 1), true
	case n-2 >= 56 && n-2 <= 255:
		return r.Bytes(n - 2), true
	case n-3 >= 256 && n-3 <= 65535:
		return r.Bytes(n - 3), true
	case n-4 >= 65536:
		return r.Bytes(n - 4), true
	}
	return nil, false
}

var edgePayloads = []int{54, 55, 56, 57, 58, 59, 254, 255, 256, 257, 258, 259, 260}
var edgePayloadsBig = []int{65534, 65535, 65536, 65537, 65538, 65539}

// genEdgeItem: a list whose payload is exactly `target` bytes long, possibly as the first / last /
// only element of an outer list (so the inner deferred header shifts the outer one)
func genEdgeItem(r *gen.Rand, big bool) (interface{}, int) {
	target := edgePayloads[r.Intn(len(edgePayloads))]
	if big {
		target = edgePayloadsBig[r.Intn(len(edgePayloadsBig))]
	}
	var elems []interface{}
	used := 0
	for k := r.Intn(4); k > 0; k-- {
		e := genItem(r, 1)
		enc, _ := rlp.EncodeToBytes(e)
		if used+len(enc) <= target-12 {
			elems = append(elems, e)
			used += len(enc)
		}
	}
	rest := target - used
	if s, ok := strOfEncLen(r, rest); ok {
		elems = append(elems, s)
	} else {
		a, _ := strOfEncLen(r, 5)
		b, _ := strOfEncLen(r, rest-5)
		elems = append(elems, a, b)
	}
	if r.Bool() && len(elems) > 1 {
		i := r.Intn(len(elems))
		elems[0], elems[i] = elems[i], elems[0]
	}
	var x interface{} = elems
	switch r.Intn(4) {
	case 0:
		x = []interface{}{x}
	case 1:
		x = []interface{}{genItem(r, 1), x}
	case 2:
		x = []interface{}{x, genItem(r, 1), []interface{}{}}
	}
	return x, target
}

var tListBytes = &T{K: "list", Elem: &T{K: "bytes"}}

func allStrings(x interface{}) ([][]byte, bool) {
	l, ok := x.([]interface{})
	if !ok {
		return nil, false
	}
	out := [][]byte{}
	for _, e := range l {
		b, ok := e.([]byte)
		if !ok {
			return nil, false
		}
		out = append(out, b)
	}
	return out, true
}

// edgeCase: the item through EncodeToBytes (as interface{} and, when flat, as [][]byte), the
// EncoderBuffer, all output paths, and back through the decoder.
func edgeCase(r *gen.Rand) [][]byte {
	big := r.Chance(1, 16)
	x, target := genEdgeItem(r, big)
	o.Count(fmt.Sprintf("edge.list-payload.%d", target))
	o.Mark(fmt.Sprintf("edge:%d", target))
	ds := dumpItem(x)
	var encs [][]byte
	o.InOnly("T iface")
	step++
	e, err, pan := safeEncode("kai", x)
	if pan || err != nil {
		o.Fail(step, "panic-encode", fmt.Sprintf("type=[iface] value=[I %s] %v", ds, err))
		o.Op("E I "+ds, "PANIC")
		return nil
	}
	o.Op("E I "+ds, "e "+hexs(e))
	if g, gerr, gpan := safeEncode("geth", x); gpan || gerr != nil || !bytes.Equal(g, e) {
		o.Fail(step, "arbiter-encode", fmt.Sprintf("type=[iface] value=[I %s] kai=%s geth=%s", ds, hexs(e), hexs(g)))
	}
	encodePaths(r, "type=[iface] value=[I "+ds+"]", x, e)
	o.Op("D "+hexs(e), decodeOp(tIface, e, true))
	var back interface{}
	if derr, dpan := safeDecode("kai", e, &back); derr != nil || dpan || dumpItem(back) != ds {
		o.Fail(step, "roundtrip-differs", fmt.Sprintf("type=[iface] value=[I %s] enc=%s err=%v", ds, hexs(e), derr))
	}
	ebOp(r, x)
	if !big {
		encs = append(encs, e)
		rawOps(e)
	}
	if ss, ok := allStrings(x); ok {
		o.InOnly("T " + tListBytes.tokens())
		step++
		e2, err2, pan2 := safeEncode("kai", ss)
		v := reflect.ValueOf(ss)
		if pan2 || err2 != nil || !bytes.Equal(e2, e) {
			o.Fail(step, "encode-path-differs", fmt.Sprintf("[][]byte and []interface{} of the same strings encode differently: %s vs %s", hexs(e2), hexs(e)))
		}
		o.Op("E "+dump(tListBytes, v), "e "+hexs(e2))
		o.Op("D "+hexs(e2), decodeOp(tListBytes, e2, true))
	}
	return encs
}

// ---------------------------------------------------------------- AppendUint64 / IntSize / ListSize

var sizeEdges = []uint64{0, 1, 54, 55, 56, 57, 127, 128, 255, 256, 65535, 65536, 1<<24 - 1, 1 << 24, 1<<32 - 1, 1 << 32, 1<<40 - 1, 1 << 40,
	1<<48 - 1, 1 << 48, 1<<56 - 1, 1 << 56, 1<<63 - 1, 1 << 63, ^uint64(0) - 9, ^uint64(0) - 8, ^uint64(0) - 1, ^uint64(0)}

func rawHelperOps(r *gen.Rand) {
	for i := 0; i < 3; i++ {
		step++
		n := genU64(r, 64)
		if r.Chance(1, 3) {
			n = sizeEdges[r.Intn(len(sizeEdges))]
		}
		var a, a2 []byte
		var is int
		prefix := []byte{0xc3, 0x01}
		if msg, pan := catch(func() {
			a = rlp.AppendUint64(nil, n)
			a2 = rlp.AppendUint64(append([]byte{}, prefix...), n)
			is = rlp.IntSize(n)
		}); pan {
			o.Fail(step, "panic-appenduint", fmt.Sprintf("n=%d %s", n, msg))
			o.Op(fmt.Sprintf("AU %d", n), "PANIC")
			continue
		}
		o.Op(fmt.Sprintf("AU %d", n), fmt.Sprintf("a %s %d", hexs(a), is))
		e, _, _ := safeEncode("kai", n)
		g, _, _ := safeEncode("geth", n)
		if !bytes.Equal(a, e) || !bytes.Equal(a, g) || !bytes.HasPrefix(a2, prefix) || !bytes.Equal(a2[len(prefix):], a) || is != len(a) {
			o.Fail(step, "appenduint-differs", fmt.Sprintf("n=%d AppendUint64=%s appended-to-prefix=%s IntSize=%d EncodeToBytes=%s geth=%s", n, hexs(a), hexs(a2), is, hexs(e), hexs(g)))
		}
		if x, rest, err := rlp.SplitUint64(a2[len(prefix):]); err != nil || x != n || len(rest) != 0 {
			o.Fail(step, "appenduint-differs", fmt.Sprintf("n=%d AppendUint64=%s SplitUint64 gives %d rest=%s err=%v", n, hexs(a), x, hexs(rest), err))
		}
	}
	for i := 0; i < 2; i++ {
		step++
		n := sizeEdges[r.Intn(len(sizeEdges))]
		if r.Bool() {
			n = genU64(r, 64)
		}
		var ls uint64
		if msg, pan := catch(func() { ls = rlp.ListSize(n) }); pan {
			o.Fail(step, "panic-listsize", fmt.Sprintf("n=%d %s", n, msg))
			o.Op(fmt.Sprintf("LS %d", n), "PANIC")
			continue
		}
		o.Op(fmt.Sprintf("LS %d", n), fmt.Sprintf("ls %d", ls))
		if n < 1<<31 {
			if want := uint64(len(headCanon(0xC0, 0xF7, int(n)))) + n; ls != want {
				o.Fail(step, "listsize-differs", fmt.Sprintf("ListSize(%d)=%d, a list with that payload has %d bytes", n, ls, want))
			}
		}
	}
}

// ---------------------------------------------------------------- list iterator

func iterOp(h []byte) string {
	it, err := rlp.NewListIterator(h)
	if err != nil {
		return "it err " + errClass(err)
	}
	var vals []string
	tail := ""
	var joined []byte
	for i := 0; i <= len(h); i++ {
		if !it.Next() {
			break
		}
		if it.Err() != nil {
			tail = " err " + errClass(it.Err())
			break
		}
		vals = append(vals, hexs(it.Value()))
		joined = append(joined, it.Value()...)
	}
	// direct oracle: on a clean run the values are the payload of the list, cut at value boundaries
	if tail == "" {
		c, _, serr := rlp.SplitList(h)
		n, cerr := rlp.CountValues(c)
		if serr != nil || !bytes.Equal(c, joined) || cerr != nil || n != len(vals) {
			o.Fail(step, "iterator-differs", fmt.Sprintf("input=%s iterator yields %d values %s; SplitList payload=%s err=%v CountValues=%d err=%v", hexs(h), len(vals), hexs(joined), hexs(c), serr, n, cerr))
		}
	}
	return fmt.Sprintf("it %d %s%s", len(vals), strings.Join(vals, " "), tail)
}

// ---------------------------------------------------------------- several values in a row on one Stream

// multiStream: NewStream(reader, limit) + Decode(&value of t) until the first error, as the
// journals do.  limit 0 = the reader's length; an explicit limit k <= len(b) must behave like
// the input cut after k bytes.
func multiStream(r *gen.Rand, t *T, encs [][]byte, hs []hostile) {
	step++
	var b []byte
	clean := true
	for k := r.Intn(4); k > 0 && len(encs) > 0; k-- {
		e := encs[r.Intn(len(encs))]
		b = append(b, e...)
		// (encodings of values outside the round-trip domain may be rejected by the decoder)
		if err, pan := safeDecode("kai", e, reflect.New(t.rtype()).Interface()); err != nil || pan {
			clean = false
		}
	}
	if r.Chance(1, 3) && len(hs) > 0 {
		h := hs[r.Intn(len(hs))].b
		if !declaresHuge(h) {
			b = append(b, h...)
			clean = false
		}
	}
	limit := 0
	if r.Chance(1, 3) && len(b) > 0 {
		limit = 1 + r.Intn(len(b))
		clean = false
	}
	rt := t.rtype()
	var outs []string
	nvals := 0
	msg, pan := catch(func() {
		s := rlp.NewStream(bytes.NewReader(b), uint64(limit))
		for i := 0; i <= len(b); i++ {
			p := reflect.New(rt)
			if err := s.Decode(p.Interface()); err != nil {
				outs = append(outs, "end "+errClass(err))
				return
			}
			nvals++
			outs = append(outs, dump(t, p.Elem()))
		}
		outs = append(outs, "end none")
	})
	if pan {
		o.Fail(step, "panic-decode", fmt.Sprintf("type=[%s] stream of values input=%s limit=%d %s", t.tokens(), hexs(b), limit, msg))
		o.Op(fmt.Sprintf("MS %d %s", limit, hexs(b)), "PANIC")
		return
	}
	o.Count("stream.multi-value")
	o.Op(fmt.Sprintf("MS %d %s", limit, hexs(b)), "m "+strings.Join(outs, " | "))
	if clean {
		// direct oracle: a concatenation of encodings decodes to that many values and ends with EOF
		want := 0
		rest := b
		for len(rest) > 0 {
			_, _, rr, err := rlp.Split(rest)
			if err != nil {
				break
			}
			want++
			rest = rr
		}
		if nvals != want || outs[len(outs)-1] != "end eof" {
			o.Fail(step, "stream-sequence", fmt.Sprintf("type=[%s] input=%s is %d encodings in a row; the stream gave %d values and ended with [%s]", t.tokens(), hexs(b), want, nvals, outs[len(outs)-1]))
		}
	}
}

// ---------------------------------------------------------------- the Stream used by hand

func errClassStream(err error) string {
	c := errClass(err)
	if c == "uintoverflow" {
		return "toolong" // Stream.Uint returns the unwrapped error; one class in the model
	}
	return c
}

// streamScript: up to 14 operations on one Stream; the next operation is chosen from what Kind
// reported (mostly sensible, sometimes not).  The script ends at the first error other than EOL
// or a refused ListEnd.
func streamScript(r *gen.Rand, b []byte) {
	step++
	mode := "T"
	var s *rlp.Stream
	if r.Chance(1, 5) {
		n := r.Intn(len(b) + 1)
		s = rlp.NewListStream(bytes.NewReader(b), uint64(n))
		mode = fmt.Sprintf("L%d", n)
	} else {
		s = rlp.NewStream(bytes.NewReader(b), 0)
	}
	var ops, outs []string
	known := -1 // kind last reported by Kind and not consumed yet: 0 byte, 1 string, 2 list
	size := uint64(0)
	depth := 0
	msg, pan := catch(func() {
		for i := 0; i < 14; i++ {
			var op string
			switch {
			case known < 0 && r.Chance(3, 5):
				op = "K"
			case r.Chance(1, 6):
				op = []string{"K", "L", "E", "B", "U64", "U8", "O", "R", "I", "RB1", "U16", "U32"}[r.Intn(12)]
			case known == 2:
				op = []string{"L", "L", "L", "R"}[r.Intn(4)]
			case known == 0 || known == 1:
				op = []string{"B", "B", "U64", "U32", "U16", "U8", "O", "R", "I", "RB"}[r.Intn(10)]
				if op == "RB" {
					k := size
					if known == 0 {
						k = 1
					}
					if r.Chance(1, 5) {
						k++
					}
					if k > 70000 {
						k = 70000
					}
					op = fmt.Sprintf("RB%d", k)
				}
			case depth > 0 && r.Chance(1, 3):
				op = "E"
			default:
				op = []string{"B", "L", "U64", "R", "E", "I"}[r.Intn(6)]
			}
			ops = append(ops, op)
			var err error
			var res string
			switch {
			case op == "K":
				var k rlp.Kind
				var sz uint64
				if k, sz, err = s.Kind(); err == nil {
					res = fmt.Sprintf("k %s %d", kindStr(k), sz)
					known, size = int(k), sz
				}
			case op == "L":
				var sz uint64
				if sz, err = s.List(); err == nil {
					res = fmt.Sprintf("u %d", sz)
					depth++
					known = -1
				}
			case op == "E":
				if err = s.ListEnd(); err == nil {
					res = "ok"
					depth--
					known = -1
				}
			case op == "B":
				var x []byte
				if x, err = s.Bytes(); err == nil {
					res = "x " + hexs(x)
					known = -1
				}
			case op == "U64":
				var x uint64
				if x, err = s.Uint(); err == nil {
					res = fmt.Sprintf("u %d", x)
					known = -1
				}
			case op == "U32":
				var x uint32
				if err = s.Decode(&x); err == nil {
					res = fmt.Sprintf("u %d", x)
					known = -1
				}
			case op == "U16":
				var x uint16
				if err = s.Decode(&x); err == nil {
					res = fmt.Sprintf("u %d", x)
					known = -1
				}
			case op == "U8":
				var x uint8
				if err = s.Decode(&x); err == nil {
					res = fmt.Sprintf("u %d", x)
					known = -1
				}
			case op == "O":
				var x bool
				if x, err = s.Bool(); err == nil {
					res = "f"
					if x {
						res = "t"
					}
					known = -1
				}
			case op == "R":
				var x []byte
				if x, err = s.Raw(); err == nil {
					res = "x " + hexs(x)
					known = -1
				}
			case op == "I":
				x := new(big.Int)
				if err = s.Decode(x); err == nil {
					res = "u " + x.String()
					known = -1
				}
			default: // RB<n>
				var n int
				fmt.Sscanf(op, "RB%d", &n)
				buf := make([]byte, n)
				if err = s.ReadBytes(buf); err == nil {
					res = "x " + hexs(buf)
					// direct oracle: ReadBytes only succeeds when the buffer has exactly the size Kind announced
					if (known == 0 && n != 1) || (known == 1 && uint64(n) != size) || known == 2 {
						o.Fail(step, "stream-readbytes", fmt.Sprintf("input=%s ops=[%s]: Kind announced kind=%d size=%d, ReadBytes filled a buffer of %d bytes", hexs(b), strings.Join(ops, " "), known, size, n))
					}
					known = -1
				}
			}
			if err != nil {
				c := errClassStream(err)
				outs = append(outs, "err "+c)
				if c == "eol" || op == "E" {
					continue
				}
				return
			}
			outs = append(outs, res)
		}
	})
	line := fmt.Sprintf("SC %s %s %s", mode, hexs(b), strings.Join(ops, " "))
	if pan {
		o.Fail(step, "panic-stream", fmt.Sprintf("script=[%s] %s", line, msg))
		o.Op(line, "PANIC")
		return
	}
	o.Count("stream.script")
	o.Op(line, "sc "+strings.Join(outs, " | "))
}

// ---------------------------------------------------------------- types.Header

func headerDescriptor() *T {
	u64, h32 := &T{K: "u", Bits: 64}, &T{K: "arr", N: 32}
	psh := &T{K: "struct", Fields: []F{{T: &T{K: "u", Bits: 32}}, {T: h32}}}
	bid := &T{K: "struct", Fields: []F{{T: h32}, {T: psh}}}
	return &T{K: "struct", Fields: []F{{T: u64}, {T: &T{K: "struct"}}, {T: u64}, {T: u64}, {T: bid}, {T: &T{K: "arr", N: 20}},
		{T: h32}, {T: h32}, {T: h32}, {T: h32}, {T: h32}, {T: h32}, {T: h32}}}
}

func genHeader(r *gen.Rand) *types.Header {
	hh := func() common.Hash {
		if r.Chance(1, 6) {
			return common.Hash{}
		}
		b := r.Bytes(32)
		if r.Chance(1, 6) {
			b[0] = 0
		}
		return common.BytesToHash(b)
	}
	h := &types.Header{Height: genU64(r, 64), NumTxs: genU64(r, 64), GasLimit: genU64(r, 64),
		ProposerAddress: common.BytesToAddress(r.Bytes(20)),
		LastCommitHash:  hh(), TxHash: hh(), ValidatorsHash: hh(), NextValidatorsHash: hh(), ConsensusHash: hh(), AppHash: hh(), EvidenceHash: hh()}
	h.LastBlockID = types.BlockID{Hash: hh(), PartsHeader: types.PartSetHeader{Total: uint32(genU64(r, 32)), Hash: hh()}}
	if r.Bool() {
		h.Time = time.Unix(int64(genU64(r, 40)), 0)
	}
	return h
}

func headerTokens(h *types.Header) string {
	x := func(b []byte) string { return "x " + hexs(b) }
	return fmt.Sprintf("s 13 u %d s 0 u %d u %d s 2 %s s 2 u %d %s %s %s %s %s %s %s %s %s", h.Height, h.NumTxs, h.GasLimit,
		x(h.LastBlockID.Hash[:]), h.LastBlockID.PartsHeader.Total, x(h.LastBlockID.PartsHeader.Hash[:]), x(h.ProposerAddress[:]),
		x(h.LastCommitHash[:]), x(h.TxHash[:]), x(h.ValidatorsHash[:]), x(h.NextValidatorsHash[:]), x(h.ConsensusHash[:]), x(h.AppHash[:]), x(h.EvidenceHash[:]))
}

// headerCase: the rlpgen-generated Header.EncodeRLP (EncoderBuffer) against the model and against
// the reflection encoder of a struct of the same shape; decode (by reflection) and hash stability.
func headerCase(r *gen.Rand) (encs [][]byte, reDecode func([]byte)) {
	fail := func(cls, detail string) { o.Fail(step, cls, detail) }
	for i := 0; i < 3; i++ {
		h := genHeader(r)
		step++
		e, err, pan := safeEncode("kai", h)
		if pan || err != nil {
			fail("real-encode-failed", fmt.Sprint("header ", err))
			continue
		}
		o.Op("E "+headerTokens(h), "e "+hexs(e))
		encs = append(encs, e)
		encodePaths(r, "header", h, e)
		var back types.Header
		if err, pan := safeDecode("kai", e, &back); err != nil || pan {
			fail("real-roundtrip", fmt.Sprintf("header enc=%s err=%v", hexs(e), err))
			continue
		}
		e2, _, _ := safeEncode("kai", &back)
		if !bytes.Equal(e, e2) || headerTokens(&back) != headerTokens(h) {
			fail("real-hash-unstable", fmt.Sprintf("header enc=%s reenc=%s", hexs(e), hexs(e2)))
		}
	}
	reDecode = func(b []byte) {
		var x types.Header
		err, pan := safeDecode("kai", b, &x)
		if pan {
			fail("panic-decode-real", "header input="+hexs(b))
		} else if err == nil {
			if re, _, _ := safeEncode("kai", &x); !bytes.Equal(re, b) {
				fail("noncanonical-real", fmt.Sprintf("header input=%s reenc=%s", hexs(b), hexs(re)))
			}
		}
	}
	return
}

// ---------------------------------------------------------------- fixed API checks

// negative big integers have no encoding: ErrNegativeBigInt, never a panic, never bytes
func negativeBigChecks() {
	step++
	neg := big.NewInt(-1)
	type holder struct {
		A uint64
		B *big.Int
	}
	type holderV struct {
		A uint64
		B big.Int
	}
	for i, v := range []interface{}{neg, *neg, holder{1, neg}, &holderV{1, *neg}, []*big.Int{big.NewInt(1), neg}} {
		e, err, pan := safeEncode("kai", v)
		if pan || err == nil || errClass(err) != "negative" {
			o.Fail(step, "negative-bigint-encoded", fmt.Sprintf("shape %d: EncodeToBytes of a negative big integer gives %s err=%v panic=%v", i, hexs(e), err, pan))
		}
	}
	o.Count("fixed.negative-bigint")
}

var _ = geth.EncodeToBytes

// ---------------------------------------------------------------- slices of wide elements, readers without a length

// wideTypes: slices whose element is wide in memory (kilobytes) and may be tiny on the wire, so
// that an allocation sized from a CLAIMED list length costs far more than the input justifies.
func wideElem(r *gen.Rand) *T {
	a := func(n int) *T { return &T{K: "arr", N: n} }
	u64 := &T{K: "u", Bits: 64}
	switch r.Intn(4) {
	case 0:
		return a(4096)
	case 1:
		return &T{K: "struct", Fields: []F{{T: a(2048)}, {T: a(2048)}, {T: u64}, {T: u64}}}
	case 2:
		// every field optional: the one-byte element c0 is a valid (zero) value
		return &T{K: "struct", Fields: []F{{T: a(1024), Opt: true}, {T: a(1024), Opt: true}, {T: u64, Opt: true}}}
	default:
		return &T{K: "vec", N: 3, Elem: a(1024)}
	}
}

func wideCase(r *gen.Rand) (*T, [][]byte) {
	t := &T{K: "list", Elem: wideElem(r)}
	if r.Chance(1, 4) {
		t = &T{K: "struct", Fields: []F{{T: &T{K: "u", Bits: 64}}, {T: t}}}
	}
	o.InOnly("T " + t.tokens())
	o.Count("case.wide-slice")
	o.Mark("wide:" + t.tokens())
	var encs [][]byte
	// one or two honest values (round trip through the model as well)
	for i := 0; i < 2; i++ {
		step++
		v := reflect.New(t.rtype()).Elem()
		genVal(r, t, F{}, v, false)
		ds := dump(t, v)
		e, err, pan := safeEncode("kai", v.Interface())
		if pan || err != nil {
			o.Fail(step, "panic-encode", fmt.Sprintf("type=[%s] %v", t.tokens(), err))
			continue
		}
		o.Op("E "+ds, "e "+hexs(e))
		o.Op("D "+hexs(e), decodeOp(t, e, !t.hasOptional()))
		if len(e) < 600 {
			encs = append(encs, e)
		}
	}
	// lists that claim (and have) a large payload of tiny or wrong elements
	for i := 0; i < 3; i++ {
		step++
		p := []int{300, 1000, 4000, 12000, 20000}[r.Intn(5)]
		if r.Chance(1, 12) {
			p = 60000
		}
		if t.hasOptional() {
			// one-byte elements are valid values of this element type: keep the decoded value (and
			// its dump) small; the claimed-size allocation would still be p x 2 KB
			p = []int{20, 40, 80}[r.Intn(3)]
		}
		var payload []byte
		switch r.Intn(5) {
		case 0:
			payload = fill(p, 0x80)
		case 1:
			payload = fill(p, 0xc0)
		case 2: // one string that fills the list
			if sb, ok := strOfEncLen(r, p); ok {
				payload, _ = rlp.EncodeToBytes(sb)
			} else {
				payload = fill(p, 0x80)
			}
		case 3:
			payload = append(fill(p/2, 0xc0), fill(p-p/2, 0x01)...)
		default:
			payload = r.Bytes(p)
		}
		b := append(headCanon(0xC0, 0xF7, len(payload)), payload...)
		if t.K == "struct" {
			in := append([]byte{0x05}, b...)
			b = append(headCanon(0xC0, 0xF7, len(in)), in...)
		}
		o.Count("wide.claimed-payload")
		o.Op("D "+hexs(b), decodeOp(t, b, !t.hasOptional()))
	}
	return t, encs
}

type plainReader struct{ r io.Reader }

func (p plainReader) Read(b []byte) (int, error) { return p.r.Read(b) }

type wideRec struct {
	A, B [2048]byte
	C    uint64
}

// unlimitedReader: rlp.Decode from a reader whose length the Stream cannot know.  A LIST header may
// then claim any size (the elements are read one by one until the input ends); nothing may be
// sized from that claim: no panic, an error, allocation bounded by the bytes that were there.
// The probes run in a child process with a limited address space (harness -unl <hex>): an
// allocation sized from such a claim is a fatal out-of-memory error that recover() cannot catch.
func unlTargets() []func() interface{} {
	return []func() interface{}{
		func() interface{} { return new([]uint64) },
		func() interface{} { return new([][]byte) },
		func() interface{} { return new([]wideRec) },
		func() interface{} { return new([]interface{}) },
		func() interface{} { return new([][]wideRec) },
		func() interface{} { return new(struct{ A []wideRec }) },
		func() interface{} { return new(interface{}) },
	}
}

// unlChildMain: one line per target: "ok" | "panic <msg>" | "accepted" | "alloc <n>"
func unlChildMain(hx string) {
	b, _ := hex.DecodeString(hx)
	for _, mk := range unlTargets() {
		tgt := mk()
		var err error
		m0 := memNow()
		msg, pan := catch(func() { err = rlp.Decode(plainReader{bytes.NewReader(b)}, tgt) })
		m1 := memNow()
		switch {
		case pan:
			fmt.Printf("panic %s\n", strings.ReplaceAll(msg, "\n", " "))
		case err == nil:
			fmt.Println("accepted")
		case m1-m0 > 1<<20:
			fmt.Printf("alloc %d\n", m1-m0)
		default:
			fmt.Println("ok")
		}
	}
	os.Exit(0)
}

func unlimitedReader(r *gen.Rand) {
	step++
	claims := [][]byte{{0xff, 0x7f, 0xff, 0xff, 0xff, 0xff, 0xff, 0xff, 0xff}, {0xff, 0xff, 0xff, 0xff, 0xff, 0xff, 0xff, 0xff, 0xff},
		{0xff, 0x80, 0, 0, 0, 0, 0, 0, 0}, {0xfc, 0x01, 0, 0, 0, 0}, {0xfb, 0x7f, 0xff, 0xff, 0xff}, {0xfb, 0x40, 0, 0, 0}, {0xfa, 0xff, 0xff, 0xff}}
	b := append([]byte{}, claims[r.Intn(len(claims))]...)
	for k := r.Intn(6); k > 0; k-- {
		b = append(b, []byte{0x01, 0x80, 0xc0, 0x7f, 0x82, 0xc1}[r.Intn(6)])
	}
	cmd := exec.Command("/bin/sh", "-c", `ulimit -v 3000000; exec "$0" -unl "$1"`, os.Args[0], hex.EncodeToString(b))
	var outb, errb bytes.Buffer
	cmd.Stdout, cmd.Stderr = &outb, &errb
	done := make(chan error, 1)
	if cmd.Start() != nil {
		return
	}
	go func() { done <- cmd.Wait() }()
	select {
	case <-done:
	case <-time.After(120 * time.Second):
		cmd.Process.Kill()
	}
	lines := strings.Split(strings.TrimSpace(outb.String()), "\n")
	names := []string{"[]uint64", "[][]byte", "[]wide struct", "[]interface{}", "[][]wide struct", "struct{[]wide struct}", "interface{}"}
	for i, nm := range names {
		l := "died"
		if i < len(lines) && lines[i] != "" {
			l = lines[i]
		}
		ctx := fmt.Sprintf("rlp.Decode from a reader without a known length into %s, input=%s (%d bytes, the list header claims far more)", nm, hexs(b), len(b))
		switch {
		case l == "ok":
		case l == "died":
			msg := errb.String()
			if k := strings.Index(msg, "\n"); k > 0 {
				msg = msg[:k]
			}
			o.Fail(step, "alloc-crash", ctx+" kills a decoding process whose address space is limited to 3 GB: "+strings.ReplaceAll(msg, " ", "_"))
			i = len(names)
		case strings.HasPrefix(l, "panic"):
			o.Fail(step, "panic-decode", ctx+": "+l)
		case l == "accepted":
			o.Fail(step, "unlimited-accepted", ctx+" was accepted")
		default:
			o.Fail(step, "alloc-unbounded", ctx+": "+l)
		}
		if l == "died" {
			break
		}
	}
	o.Count("stream.unlimited-reader")
}

// ---------------------------------------------------------------- hand-mutated fields of the real types

// fieldVariants: replacements for one field of an encoding
func fieldVariants(r *gen.Rand) [][]byte {
	vs := [][]byte{{0x00}, {0x01}, {0x02}, {0x7f}, {0x80}, {0x81, 0x80}, {0x81, 0xff}, {0xc0}, {0xc1, 0x80}}
	for _, n := range []int{2, 8, 19, 20, 21, 31, 32, 33, 255, 256, 257} {
		vs = append(vs, append(headCanon(0x80, 0xB7, n), r.Bytes(n)...))
	}
	return vs
}

// withNodeReplaced: the canonical encoding of tree n with node number `at` replaced by raw
func (n *node) replaced(idx *int, at int, raw []byte) []byte {
	me := *idx
	*idx++
	if me == at {
		// skip the numbering of the subtree
		*idx += n.count() - 1
		return raw
	}
	if !n.isL {
		if len(n.str) == 1 && n.str[0] < 0x80 {
			return n.str
		}
		return append(headCanon(0x80, 0xB7, len(n.str)), n.str...)
	}
	var payload []byte
	for _, c := range n.list {
		payload = append(payload, c.replaced(idx, at, raw)...)
	}
	return append(headCanon(0xC0, 0xF7, len(payload)), payload...)
}

// fieldMutants: every encoding in encs with one field (at any depth) replaced by a variant; each is
// handed to the oracle "accepted by the real type's decoder => re-encodes to exactly these bytes"
func fieldMutants(r *gen.Rand, encs [][]byte, reDecode func([]byte), k int) {
	if reDecode == nil {
		return
	}
	for _, e := range encs {
		nd, rest := parseNode(e)
		if nd == nil || len(rest) != 0 {
			continue
		}
		vars := fieldVariants(r)
		for i := 0; i < k; i++ {
			idx := 0
			at := 1 + r.Intn(nd.count())
			if at >= nd.count() {
				at = nd.count() - 1
			}
			if at < 1 {
				continue
			}
			reDecode(nd.replaced(&idx, at, vars[r.Intn(len(vars))]))
			o.Count("real.field-mutant")
		}
	}
}

// receiptStatusMutants: the first field of a receipt (post state or status): every single byte,
// and strings of the lengths around the two legal ones
func receiptStatusMutants(r *gen.Rand, enc []byte, reDecode func([]byte)) {
	nd, rest := parseNode(enc)
	if nd == nil || len(rest) != 0 || !nd.isL || len(nd.list) == 0 {
		return
	}
	var vars [][]byte
	for b := 0; b < 0x80; b++ {
		vars = append(vars, []byte{byte(b)})
	}
	vars = append(vars, []byte{0x80}, []byte{0x81, 0x80}, []byte{0x81, 0xff})
	for _, n := range []int{2, 31, 32, 33} {
		vars = append(vars, append(headCanon(0x80, 0xB7, n), r.Bytes(n)...))
	}
	for _, v := range vars {
		idx := 0
		reDecode(nd.replaced(&idx, 1, v))
	}
	o.Count("real.receipt-status-mutants")
}

// otherRealDecoders: Log, LogForStorage and BlockInfo have hand-written DecodeRLP methods too.
// Oracle only (no model line): accepted => re-encodes to the input.
func otherRealDecoders(r *gen.Rand) {
	step++
	chk := func(name string, b []byte, mk func() interface{}) {
		x := mk()
		err, pan := safeDecode("kai", b, x)
		if pan {
			o.Fail(step, "panic-decode-real", name+" input="+hexs(b))
		} else if err == nil {
			if re, _, _ := safeEncode("kai", x); !bytes.Equal(re, b) {
				o.Fail(step, "noncanonical-real", fmt.Sprintf("%s input=%s reenc=%s", name, hexs(b), hexs(re)))
			}
		}
	}
	logs := genLogs(r)
	for _, l := range logs {
		e, err, pan := safeEncode("kai", l)
		if pan || err != nil {
			o.Fail(step, "real-encode-failed", fmt.Sprint("log ", err))
			continue
		}
		chk("log", e, func() interface{} { return new(types.Log) })
		chk("log-storage", e, func() interface{} { return new(types.LogForStorage) })
		fieldMutants(r, [][]byte{e}, func(b []byte) {
			chk("log", b, func() interface{} { return new(types.Log) })
			chk("log-storage", b, func() interface{} { return new(types.LogForStorage) })
		}, 6)
	}
	bi := &types.BlockInfo{GasUsed: genU64(r, 64), Rewards: genBig(r)}
	for k := r.Intn(3); k > 0; k-- {
		rc := &types.Receipt{CumulativeGasUsed: genU64(r, 64), Logs: genLogs(r), GasUsed: genU64(r, 64),
			TxHash: common.BytesToHash(r.Bytes(32)), ContractAddress: common.BytesToAddress(r.Bytes(20))}
		if r.Bool() {
			rc.Status = types.ReceiptStatusSuccessful
		}
		rc.Bloom = types.CreateBloom(types.Receipts{rc})
		bi.Receipts = append(bi.Receipts, rc)
	}
	e, err, pan := safeEncode("kai", bi)
	if pan || err != nil {
		o.Fail(step, "real-encode-failed", fmt.Sprint("blockinfo ", err))
		return
	}
	var back types.BlockInfo
	if derr, dpan := safeDecode("kai", e, &back); derr != nil || dpan {
		o.Fail(step, "real-roundtrip", fmt.Sprintf("blockinfo enc=%s err=%v", hexs(e), derr))
	} else if e2, _, _ := safeEncode("kai", &back); !bytes.Equal(e, e2) {
		o.Fail(step, "real-hash-unstable", fmt.Sprintf("blockinfo enc=%s reenc=%s", hexs(e), hexs(e2)))
	}
	mk := func() interface{} { return new(types.BlockInfo) }
	fieldMutants(r, [][]byte{e}, func(b []byte) { chk("blockinfo", b, mk) }, 12)
	// the status field of the first stored receipt, every value
	if nd, rest := parseNode(e); nd != nil && len(rest) == 0 && nd.isL && len(nd.list) == 4 && len(nd.list[2].list) > 0 {
		// node numbering: 0 outer, 1 gas, 2 rewards, 3 receipts, 4 first receipt, 5 its status
		for b := 0; b < 0x80; b += 1 + r.Intn(3) {
			idx := 0
			chk("blockinfo", nd.replaced(&idx, 5, []byte{byte(b)}), mk)
		}
	}
	o.Count("real.other-decoders")
}
