module verif/go2coq

go 1.18
