// go2coq: a translator from a small pure subset of Go (machine-integer / boolean code) to Gallina.
//
// It is the "regenerated from the source on every run" half of the tie between /repo and the Coq
// development: the functions and decision expressions listed in a spec file are parsed and
// TYPE-CHECKED (go/types, export data of the dependencies from `go list -export`) in /repo's current
// working tree and emitted as Coq definitions over Z with explicit two's-complement / modular wraps
// (coq/theories/Base/GoSem.v).  The per-property files coq/theories/Cxx/ProofsSource.v prove that the
// hand-written model's arithmetic and guards ARE these definitions (for all inputs in range), so an
// edit of the Go source that changes a translated function or guard re-opens a Coq proof obligation.
//
// Two modes per spec entry:
//   "funcs":  whole functions whose body lies in the subset (if/else, switch, :=, =, op=, ++/--,
//             var, return, calls to other translated functions, math/bits Add64/Sub64/Mul64); anything
//             else is an error (the translator refuses rather than guesses).
//   "guards": for big methods: every `if` condition, tagless `switch` case, and integer/boolean
//             assignment / return expression that contains an operator is emitted as a function of its
//             ATOMS = maximal sub-expressions outside the subset (field reads, method calls, len(..)),
//             together with the list of the atoms' source texts and types (so a change of WHAT is
//             compared is visible to Coq as well as a change of HOW).
//
// Usage: go2coq -repo /repo -spec spec.json -out File.v      (run with cwd anywhere; needs `go` on PATH)
package main

import (
	"bytes"
	"encoding/json"
	"flag"
	"fmt"
	"go/ast"
	"go/constant"
	"go/importer"
	"go/parser"
	"go/printer"
	"go/token"
	"go/types"
	"io"
	"os"
	"os/exec"
	"path/filepath"
	"sort"
	"strings"
)

type specEntry struct {
	Pkg    string   `json:"pkg"`    // e.g. "./types"
	Funcs  []string `json:"funcs"`  // whole-function mode: "safeAdd", "Recv.Method"
	Guards []string `json:"guards"` // guard mode: "VoteSet.addVerifiedVote"
	Consts []string `json:"consts"` // package-level integer constants to emit
}

type spec struct {
	Module  string      `json:"module"` // Coq module comment / name
	Entries []specEntry `json:"entries"`
}

type pkgInfo struct {
	path  string
	dir   string
	fset  *token.FileSet
	files []*ast.File
	info  *types.Info
	pkg   *types.Package
	decls map[string]*ast.FuncDecl // "f" or "Recv.f"
}

func fatal(f string, a ...interface{}) {
	fmt.Fprintf(os.Stderr, "go2coq: "+f+"\n", a...)
	os.Exit(1)
}

var exportData = map[string]string{}
var pkgMeta = map[string]*listEntry{}

type listEntry struct {
	ImportPath, Export, Dir string
	GoFiles, CgoFiles       []string
}

// goList runs ONE `go list -export -deps` for all packages of the spec (export data = compiled
// interfaces of the dependencies from the build cache; the listed packages themselves are type-checked from source).
func goList(repo string, pkgs []string) {
	args := append([]string{"list", "-export", "-deps", "-json=ImportPath,Export,Dir,GoFiles,CgoFiles"}, pkgs...)
	cmd := exec.Command("go", args...)
	cmd.Dir = repo
	var stderr bytes.Buffer
	cmd.Stderr = &stderr
	out, err := cmd.Output()
	if err != nil {
		fatal("go list %v: %v\n%s", pkgs, err, stderr.String())
	}
	dec := json.NewDecoder(bytes.NewReader(out))
	for {
		e := &listEntry{}
		if err := dec.Decode(e); err == io.EOF {
			break
		} else if err != nil {
			fatal("go list json: %v", err)
		}
		exportData[e.ImportPath] = e.Export
		pkgMeta[e.ImportPath] = e
	}
}

func loadPkg(repo, pkg string) *pkgInfo {
	// resolve ./x/y to the import path through the module path of the repository
	var last *listEntry
	want := filepath.Join(repo, pkg)
	for _, e := range pkgMeta {
		if filepath.Clean(e.Dir) == filepath.Clean(want) {
			last = e
		}
	}
	if last == nil {
		fatal("package %s not found by go list", pkg)
	}
	exp := exportData
	pi := &pkgInfo{path: last.ImportPath, dir: last.Dir, fset: token.NewFileSet(), decls: map[string]*ast.FuncDecl{}}
	for _, g := range last.GoFiles {
		f, err := parser.ParseFile(pi.fset, filepath.Join(last.Dir, g), nil, parser.ParseComments)
		if err != nil {
			fatal("parse %s: %v", g, err)
		}
		pi.files = append(pi.files, f)
	}
	lookup := func(path string) (io.ReadCloser, error) {
		p := exp[path]
		if p == "" {
			return nil, fmt.Errorf("no export data for %s", path)
		}
		return os.Open(p)
	}
	var terrs []string
	conf := types.Config{Importer: importer.ForCompiler(pi.fset, "gc", lookup), FakeImportC: true,
		Error: func(err error) { terrs = append(terrs, err.Error()) }}
	pi.info = &types.Info{Types: map[ast.Expr]types.TypeAndValue{}, Defs: map[*ast.Ident]types.Object{}, Uses: map[*ast.Ident]types.Object{}}
	pi.pkg, _ = conf.Check(last.ImportPath, pi.fset, pi.files, pi.info)
	if len(terrs) > 0 {
		fatal("type errors in %s: %s", pkg, strings.Join(terrs[:min(3, len(terrs))], "; "))
	}
	for _, f := range pi.files {
		for _, d := range f.Decls {
			fd, ok := d.(*ast.FuncDecl)
			if !ok || fd.Body == nil {
				continue
			}
			name := fd.Name.Name
			if fd.Recv != nil && len(fd.Recv.List) == 1 {
				t := fd.Recv.List[0].Type
				if s, ok := t.(*ast.StarExpr); ok {
					t = s.X
				}
				if id, ok := t.(*ast.Ident); ok {
					name = id.Name + "." + name
				}
			}
			pi.decls[name] = fd
		}
	}
	return pi
}

func min(a, b int) int {
	if a < b {
		return a
	}
	return b
}

// ---------------------------------------------------------------- types

type ity struct {
	name   string // I8 .. U64 | "bool"
	signed bool
	bits   int
}

func basicOf(t types.Type) (ity, bool) {
	if t == nil {
		return ity{}, false
	}
	b, ok := t.Underlying().(*types.Basic)
	if !ok {
		return ity{}, false
	}
	switch b.Kind() {
	case types.Bool, types.UntypedBool:
		return ity{name: "bool"}, true
	case types.Int8:
		return ity{"I8", true, 8}, true
	case types.Int16:
		return ity{"I16", true, 16}, true
	case types.Int32:
		return ity{"I32", true, 32}, true
	case types.Int64, types.Int:
		return ity{"I64", true, 64}, true
	case types.Uint8:
		return ity{"U8", false, 8}, true
	case types.Uint16:
		return ity{"U16", false, 16}, true
	case types.Uint32:
		return ity{"U32", false, 32}, true
	case types.Uint64, types.Uint:
		return ity{"U64", false, 64}, true
	case types.UntypedInt, types.UntypedRune:
		return ity{"I64", true, 64}, true // only reached for constants, which are emitted as literals
	}
	return ity{}, false
}

func coqTy(t ity) string {
	if t.name == "bool" {
		return "bool"
	}
	return "Z"
}

// ---------------------------------------------------------------- expression translation

type unsupported struct{ msg string }

type tr struct {
	pi      *pkgInfo
	prefix  string                 // Coq name prefix of the package
	atoms   bool                   // guard mode: abstract non-subset sub-expressions
	atomIdx map[string]int         // source text -> index
	atomTxt []string               // source texts with types
	atomTy  []ity                  // types
	vars    map[types.Object]string // function mode: bound variables
	nvar    int
	vardiv  bool            // a division by a non-constant was emitted
	need    map[string]bool // callee functions needed (same package)
	order   *[]string
}

func (t *tr) src(n ast.Node) string {
	var b bytes.Buffer
	printer.Fprint(&b, t.pi.fset, n)
	return strings.Join(strings.Fields(b.String()), " ")
}

func (t *tr) fail(n ast.Node, why string) {
	panic(unsupported{fmt.Sprintf("%s: unsupported %s: %s", t.pi.fset.Position(n.Pos()), why, t.src(n))})
}

func zlit(v constant.Value) string {
	s := v.ExactString()
	if strings.HasPrefix(s, "-") {
		return "(" + s + ")"
	}
	return s
}

func (t *tr) atom(e ast.Expr) string {
	ty, ok := basicOf(t.pi.info.TypeOf(e))
	if !t.atoms || !ok {
		t.fail(e, "expression")
	}
	s := t.src(e)
	if i, ok := t.atomIdx[s]; ok {
		return fmt.Sprintf("x%d", i+1)
	}
	t.atomIdx[s] = len(t.atomTxt)
	t.atomTxt = append(t.atomTxt, s+" : "+t.pi.info.TypeOf(e).String())
	t.atomTy = append(t.atomTy, ty)
	return fmt.Sprintf("x%d", len(t.atomTxt))
}

var cmpOps = map[token.Token][2]string{
	token.LSS: {"Z.ltb", ""}, token.LEQ: {"Z.leb", ""}, token.GTR: {"Z.gtb", ""}, token.GEQ: {"Z.geb", ""},
	token.EQL: {"Z.eqb", "Bool.eqb"}, token.NEQ: {"go_neqb", "xorb"},
}

func (t *tr) expr(e ast.Expr) string {
	tv := t.pi.info.Types[e]
	if tv.Value != nil {
		switch tv.Value.Kind() {
		case constant.Int:
			return zlit(tv.Value)
		case constant.Bool:
			if constant.BoolVal(tv.Value) {
				return "true"
			}
			return "false"
		}
	}
	ty, isBasic := basicOf(tv.Type)
	switch x := e.(type) {
	case *ast.ParenExpr:
		return t.expr(x.X)
	case *ast.Ident:
		if obj := t.pi.info.Uses[x]; obj != nil {
			if n, ok := t.vars[obj]; ok {
				return n
			}
		}
		return t.atom(e)
	case *ast.UnaryExpr:
		switch x.Op {
		case token.NOT:
			return "(negb " + t.expr(x.X) + ")"
		case token.SUB:
			if isBasic && ty.name != "bool" {
				return fmt.Sprintf("(go_neg %s %s)", ty.name, t.expr(x.X))
			}
		case token.ADD:
			return t.expr(x.X)
		}
		return t.atom(e)
	case *ast.BinaryExpr:
		lt, lok := basicOf(t.pi.info.TypeOf(x.X))
		_, rok := basicOf(t.pi.info.TypeOf(x.Y))
		if !lok || !rok {
			return t.atom(e) // e.g. pointer == nil, string comparison: a boolean atom as a whole
		}
		switch x.Op {
		case token.LAND:
			return fmt.Sprintf("(andb %s %s)", t.expr(x.X), t.expr(x.Y))
		case token.LOR:
			return fmt.Sprintf("(orb %s %s)", t.expr(x.X), t.expr(x.Y))
		case token.LSS, token.LEQ, token.GTR, token.GEQ, token.EQL, token.NEQ:
			// comparing untyped constant with typed operand: operand type decides; both are Z or both bool
			if lt.name == "bool" {
				op := cmpOps[x.Op][1]
				if op == "" {
					t.fail(e, "boolean comparison")
				}
				return fmt.Sprintf("(%s %s %s)", op, t.expr(x.X), t.expr(x.Y))
			}
			return fmt.Sprintf("(%s %s %s)", cmpOps[x.Op][0], t.expr(x.X), t.expr(x.Y))
		}
		if !isBasic || ty.name == "bool" {
			return t.atom(e)
		}
		switch x.Op {
		case token.ADD:
			return fmt.Sprintf("(go_add %s %s %s)", ty.name, t.expr(x.X), t.expr(x.Y))
		case token.SUB:
			return fmt.Sprintf("(go_sub %s %s %s)", ty.name, t.expr(x.X), t.expr(x.Y))
		case token.MUL:
			return fmt.Sprintf("(go_mul %s %s %s)", ty.name, t.expr(x.X), t.expr(x.Y))
		case token.QUO, token.REM:
			// the divisor must be a non-zero constant: Go panics on a zero divisor, Z.quot does not
			dv := t.pi.info.Types[x.Y].Value
			if dv == nil || dv.Kind() != constant.Int || constant.Sign(dv) == 0 {
				if !t.atoms {
					t.fail(e, "division by a non-constant")
				}
				// guard mode: emitted with the divisor as an operand; Go panics on a zero divisor where
				// Z.quot/Z.rem return 0/the dividend, so tie lemmas must carry "divisor <> 0" (flagged in the comment)
				t.vardiv = true
			}
			if x.Op == token.QUO {
				return fmt.Sprintf("(go_quot %s %s %s)", ty.name, t.expr(x.X), t.expr(x.Y))
			}
			return fmt.Sprintf("(go_rem %s %s %s)", ty.name, t.expr(x.X), t.expr(x.Y))
		case token.SHL, token.SHR:
			sv := t.pi.info.Types[x.Y].Value
			if sv == nil || sv.Kind() != constant.Int || constant.Sign(sv) < 0 {
				if t.atoms {
					return t.atom(e)
				}
				t.fail(e, "shift by a non-constant")
			}
			if x.Op == token.SHL {
				return fmt.Sprintf("(go_shl %s %s %s)", ty.name, t.expr(x.X), zlit(sv))
			}
			return fmt.Sprintf("(go_shr %s %s %s)", ty.name, t.expr(x.X), zlit(sv))
		case token.AND:
			return fmt.Sprintf("(go_and %s %s %s)", ty.name, t.expr(x.X), t.expr(x.Y))
		case token.OR:
			return fmt.Sprintf("(go_or %s %s %s)", ty.name, t.expr(x.X), t.expr(x.Y))
		case token.XOR:
			return fmt.Sprintf("(go_xor %s %s %s)", ty.name, t.expr(x.X), t.expr(x.Y))
		}
		return t.atom(e)
	case *ast.CallExpr:
		// conversion between integer types
		if ftv, ok := t.pi.info.Types[x.Fun]; ok && ftv.IsType() && len(x.Args) == 1 {
			_, fromOK := basicOf(t.pi.info.TypeOf(x.Args[0]))
			if isBasic && fromOK && ty.name != "bool" {
				return fmt.Sprintf("(go_conv %s %s)", ty.name, t.expr(x.Args[0]))
			}
			return t.atom(e)
		}
		if !t.atoms {
			if name, ok := t.localCallee(x); ok {
				args := []string{}
				for _, a := range x.Args {
					args = append(args, t.expr(a))
				}
				return fmt.Sprintf("(%s %s)", name, strings.Join(args, " "))
			}
			if b, ok := t.bitsBuiltin(x); ok {
				return b
			}
		}
		return t.atom(e)
	}
	return t.atom(e)
}

// localCallee: a call to a plain function of the same package that is (or will be) translated.
func (t *tr) localCallee(c *ast.CallExpr) (string, bool) {
	id, ok := c.Fun.(*ast.Ident)
	if !ok {
		return "", false
	}
	fn, ok := t.pi.info.Uses[id].(*types.Func)
	if !ok || fn.Pkg() != t.pi.pkg {
		return "", false
	}
	if _, ok := t.pi.decls[id.Name]; !ok {
		return "", false
	}
	if !t.need[id.Name] {
		t.need[id.Name] = true
		*t.order = append(*t.order, id.Name)
	}
	return t.prefix + "__" + id.Name, true
}

func (t *tr) bitsBuiltin(c *ast.CallExpr) (string, bool) {
	sel, ok := c.Fun.(*ast.SelectorExpr)
	if !ok {
		return "", false
	}
	fn, ok := t.pi.info.Uses[sel.Sel].(*types.Func)
	if !ok || fn.Pkg() == nil || fn.Pkg().Path() != "math/bits" {
		return "", false
	}
	var g string
	switch fn.Name() {
	case "Add64":
		g = "go_bits_add64"
	case "Sub64":
		g = "go_bits_sub64"
	case "Mul64":
		g = "go_bits_mul64"
	default:
		return "", false
	}
	args := []string{}
	for _, a := range c.Args {
		args = append(args, t.expr(a))
	}
	return fmt.Sprintf("(%s %s)", g, strings.Join(args, " ")), true
}

// ---------------------------------------------------------------- statements (function mode)

func (t *tr) bind(obj types.Object) string {
	if n, ok := t.vars[obj]; ok {
		return n
	}
	t.nvar++
	n := fmt.Sprintf("%s_%d", sanitize(obj.Name()), t.nvar)
	t.vars[obj] = n
	return n
}

func sanitize(s string) string {
	var b strings.Builder
	for _, r := range s {
		if r == '_' || (r >= '0' && r <= '9') || (r >= 'a' && r <= 'z') || (r >= 'A' && r <= 'Z') {
			b.WriteRune(r)
		} else {
			b.WriteRune('_')
		}
	}
	return "v" + b.String()
}

func zero(t ity) string {
	if t.name == "bool" {
		return "false"
	}
	return "0"
}

type fctx struct {
	results []types.Object // named results (nil entries if unnamed)
	nres    int
}

// stmts translates a statement list; k produces the translation of what follows (fall-through).
func (t *tr) stmts(fc *fctx, list []ast.Stmt, k func() string) string {
	if len(list) == 0 {
		return k()
	}
	s, rest := list[0], list[1:]
	kr := func() string { return t.stmts(fc, rest, k) }
	switch x := s.(type) {
	case *ast.ReturnStmt:
		var rs []string
		if len(x.Results) == 0 {
			for _, o := range fc.results {
				if o == nil {
					t.fail(s, "bare return without named results")
				}
				rs = append(rs, t.vars[o])
			}
		} else if len(x.Results) == 1 && fc.nres > 1 {
			return t.expr(x.Results[0]) // return f(...) forwarding a tuple
		} else {
			for _, r := range x.Results {
				rs = append(rs, t.expr(r))
			}
		}
		if len(rs) == 1 {
			return rs[0]
		}
		return "(" + strings.Join(rs, ", ") + ")"
	case *ast.BlockStmt:
		return t.stmts(fc, x.List, kr)
	case *ast.IfStmt:
		if x.Init != nil {
			return t.stmts(fc, []ast.Stmt{x.Init, &ast.IfStmt{If: x.If, Cond: x.Cond, Body: x.Body, Else: x.Else}}, kr)
		}
		c := t.expr(x.Cond)
		saved := t.snapshot()
		th := t.stmts(fc, x.Body.List, kr)
		t.restore(saved)
		var el string
		if x.Else != nil {
			el = t.stmts(fc, []ast.Stmt{x.Else}, kr)
		} else {
			el = kr()
		}
		t.restore(saved)
		return fmt.Sprintf("(if %s then %s else %s)", c, th, el)
	case *ast.SwitchStmt:
		if x.Init != nil {
			return t.stmts(fc, []ast.Stmt{x.Init, &ast.SwitchStmt{Switch: x.Switch, Tag: x.Tag, Body: x.Body}}, kr)
		}
		// rewrite into an if-chain
		var chain ast.Stmt
		var def *ast.CaseClause
		var clauses []*ast.CaseClause
		for _, cs := range x.Body.List {
			cc := cs.(*ast.CaseClause)
			for _, b := range cc.Body {
				if br, ok := b.(*ast.BranchStmt); ok {
					t.fail(br, "branch statement in switch")
				}
			}
			if cc.List == nil {
				def = cc
			} else {
				clauses = append(clauses, cc)
			}
		}
		if def != nil {
			chain = &ast.BlockStmt{List: def.Body}
		}
		if x.Tag != nil {
			t.fail(s, "tagged switch")
		}
		for i := len(clauses) - 1; i >= 0; i-- {
			cc := clauses[i]
			var cond ast.Expr
			for _, e := range cc.List {
				if cond == nil {
					cond = e
				} else {
					cond = &ast.BinaryExpr{X: cond, Op: token.LOR, Y: e}
					t.pi.info.Types[cond] = types.TypeAndValue{Type: types.Typ[types.Bool]}
				}
			}
			chain = &ast.IfStmt{Cond: cond, Body: &ast.BlockStmt{List: cc.Body}, Else: chain}
		}
		if chain == nil {
			return kr()
		}
		return t.stmts(fc, []ast.Stmt{chain}, kr)
	case *ast.DeclStmt:
		gd, ok := x.Decl.(*ast.GenDecl)
		if !ok || gd.Tok != token.VAR {
			t.fail(s, "declaration")
		}
		out := ""
		for _, sp := range gd.Specs {
			vs := sp.(*ast.ValueSpec)
			for i, id := range vs.Names {
				obj := t.pi.info.Defs[id]
				ty, ok := basicOf(obj.Type())
				if !ok {
					t.fail(s, "variable type")
				}
				val := zero(ty)
				if i < len(vs.Values) {
					val = t.expr(vs.Values[i])
				}
				out += fmt.Sprintf("let %s := %s in ", t.bind(obj), val)
			}
		}
		return "(" + out + kr() + ")"
	case *ast.IncDecStmt:
		id, ok := x.X.(*ast.Ident)
		if !ok {
			t.fail(s, "inc/dec target")
		}
		obj := t.pi.info.Uses[id]
		ty, ok := basicOf(obj.Type())
		if !ok || ty.name == "bool" {
			t.fail(s, "inc/dec type")
		}
		op := "go_add"
		if x.Tok == token.DEC {
			op = "go_sub"
		}
		cur := t.vars[obj]
		if cur == "" {
			t.fail(s, "inc/dec of a non-local")
		}
		return fmt.Sprintf("(let %s := (%s %s %s 1) in %s)", cur, op, ty.name, cur, kr())
	case *ast.AssignStmt:
		// multi-value from one call
		if len(x.Rhs) == 1 && len(x.Lhs) > 1 {
			rhs := t.expr(x.Rhs[0])
			var names []string
			for _, l := range x.Lhs {
				names = append(names, t.lhs(l, x.Tok))
			}
			return fmt.Sprintf("(let '(%s) := %s in %s)", strings.Join(names, ", "), rhs, kr())
		}
		if len(x.Lhs) != len(x.Rhs) {
			t.fail(s, "assignment shape")
		}
		// evaluate all right-hand sides first (parallel assignment)
		var rhs []string
		for i, r := range x.Rhs {
			if x.Tok != token.ASSIGN && x.Tok != token.DEFINE {
				id, ok := x.Lhs[i].(*ast.Ident)
				if !ok {
					t.fail(s, "op-assign target")
				}
				obj := t.pi.info.Uses[id]
				ty, ok := basicOf(obj.Type())
				if !ok || ty.name == "bool" {
					t.fail(s, "op-assign type")
				}
				var op string
				switch x.Tok {
				case token.ADD_ASSIGN:
					op = "go_add"
				case token.SUB_ASSIGN:
					op = "go_sub"
				case token.MUL_ASSIGN:
					op = "go_mul"
				default:
					t.fail(s, "op-assign operator")
				}
				rhs = append(rhs, fmt.Sprintf("(%s %s %s %s)", op, ty.name, t.vars[obj], t.expr(r)))
			} else {
				rhs = append(rhs, t.expr(r))
			}
		}
		out := ""
		if len(rhs) == 1 {
			out = fmt.Sprintf("let %s := %s in ", t.lhs(x.Lhs[0], x.Tok), rhs[0])
		} else {
			var names []string
			for _, l := range x.Lhs {
				names = append(names, t.lhs(l, x.Tok))
			}
			out = fmt.Sprintf("let '(%s) := (%s) in ", strings.Join(names, ", "), strings.Join(rhs, ", "))
		}
		return "(" + out + kr() + ")"
	}
	t.fail(s, "statement")
	return ""
}

func (t *tr) lhs(l ast.Expr, tok token.Token) string {
	id, ok := l.(*ast.Ident)
	if !ok {
		t.fail(l, "assignment target")
	}
	if id.Name == "_" {
		return "_"
	}
	var obj types.Object
	if tok == token.DEFINE {
		obj = t.pi.info.Defs[id]
	}
	if obj == nil {
		obj = t.pi.info.Uses[id]
	}
	if obj == nil {
		t.fail(l, "assignment target object")
	}
	if _, ok := basicOf(obj.Type()); !ok {
		t.fail(l, "assignment target type")
	}
	if _, isLocal := t.vars[obj]; !isLocal && tok != token.DEFINE {
		if obj.Parent() == t.pi.pkg.Scope() {
			t.fail(l, "assignment to a package-level variable")
		}
	}
	return t.bind(obj)
}

func (t *tr) snapshot() map[types.Object]string {
	m := map[types.Object]string{}
	for k, v := range t.vars {
		m[k] = v
	}
	return m
}
func (t *tr) restore(m map[types.Object]string) {
	t.vars = map[types.Object]string{}
	for k, v := range m {
		t.vars[k] = v
	}
}

// ---------------------------------------------------------------- emitters

// cmt makes Go source text safe inside a Coq comment (no nested comment openers, no string quotes)
func cmt(s string) string {
	return strings.NewReplacer("(*", "( *", "*)", "* )", "\"", "'").Replace(s)
}

// slug turns Go source text into an identifier fragment that keeps the operators readable.
func slug(src string) string {
	r := strings.NewReplacer("<=", " le ", ">=", " ge ", "==", " eq ", "!=", " ne ", "&&", " and ", "||", " or ", "<<", " shl ", ">>", " shr ",
		"&^", " andnot ", "<", " lt ", ">", " gt ", "!", " not ", "+", " plus ", "-", " minus ", "*", " mul ", "/", " div ", "%", " mod ",
		"&", " band ", "|", " bor ", "^", " xor ", "(", " ", ")", " ", "[", " at ", "]", " ", ".", "_", ",", " ", "\"", " ", ":", " ", "{", " ", "}", " ")
	f := strings.Fields(r.Replace(src))
	var b strings.Builder
	for i, w := range f {
		if i > 0 {
			b.WriteByte('_')
		}
		for _, c := range w {
			if c == '_' || (c >= '0' && c <= '9') || (c >= 'a' && c <= 'z') || (c >= 'A' && c <= 'Z') {
				b.WriteRune(c)
			} else {
				b.WriteByte('_')
			}
		}
	}
	out := b.String()
	if len(out) > 72 {
		h := uint32(2166136261)
		for i := 0; i < len(src); i++ {
			h = (h ^ uint32(src[i])) * 16777619
		}
		out = fmt.Sprintf("%s_%08x", out[:60], h)
	}
	return out
}

func coqName(prefix, fn string) string {
	return prefix + "__" + strings.ReplaceAll(fn, ".", "_")
}

func (pi *pkgInfo) srcOf(n ast.Node) string {
	var b bytes.Buffer
	printer.Fprint(&b, pi.fset, n)
	return strings.Join(strings.Fields(b.String()), " ")
}

func (pi *pkgInfo) relfile(p token.Pos, repo string) string {
	pos := pi.fset.Position(p)
	r, err := filepath.Rel(repo, pos.Filename)
	if err != nil {
		r = pos.Filename
	}
	return r
}

func emitFunc(w *bytes.Buffer, pi *pkgInfo, repo, prefix, name string, need map[string]bool, order *[]string) {
	fd := pi.decls[name]
	if fd == nil {
		fatal("%s: function %s not found", pi.path, name)
	}
	if fd.Recv != nil {
		fatal("%s: %s: methods are only supported in guard mode", pi.path, name)
	}
	t := &tr{pi: pi, prefix: prefix, vars: map[types.Object]string{}, need: need, order: order, atomIdx: map[string]int{}}
	var params []string
	for _, f := range fd.Type.Params.List {
		for _, id := range f.Names {
			obj := pi.info.Defs[id]
			ty, ok := basicOf(obj.Type())
			if !ok {
				fatal("%s: %s: parameter %s has unsupported type %s", pi.path, name, id.Name, obj.Type())
			}
			params = append(params, fmt.Sprintf("(%s : %s)", t.bind(obj), coqTy(ty)))
		}
	}
	fc := &fctx{}
	var rty []string
	pre := ""
	if fd.Type.Results == nil {
		fatal("%s: %s: no results", pi.path, name)
	}
	for _, f := range fd.Type.Results.List {
		ty, ok := basicOf(pi.info.TypeOf(f.Type))
		if !ok {
			fatal("%s: %s: result type %s unsupported", pi.path, name, pi.info.TypeOf(f.Type))
		}
		if len(f.Names) == 0 {
			fc.results = append(fc.results, nil)
			rty = append(rty, coqTy(ty))
		}
		for _, id := range f.Names {
			obj := pi.info.Defs[id]
			fc.results = append(fc.results, obj)
			rty = append(rty, coqTy(ty))
			pre += fmt.Sprintf("let %s := %s in ", t.bind(obj), zero(ty))
		}
	}
	fc.nres = len(fc.results)
	body := func() (s string) {
		defer func() {
			if r := recover(); r != nil {
				if u, ok := r.(unsupported); ok {
					fatal("%s", u.msg)
				}
				panic(r)
			}
		}()
		return t.stmts(fc, fd.Body.List, func() string {
			t.fail(fd, "function can fall off its end")
			return ""
		})
	}()
	var sig bytes.Buffer
	printer.Fprint(&sig, pi.fset, fd.Type)
	fmt.Fprintf(w, "(* %s: func %s%s *)\n", pi.relfile(fd.Pos(), repo), fd.Name.Name, cmt(strings.TrimPrefix(strings.Join(strings.Fields(sig.String()), " "), "func")))
	fmt.Fprintf(w, "Definition %s %s : %s :=\n  %s%s.\n\n", coqName(prefix, name), strings.Join(params, " "), strings.Join(rty, " * "), pre, body)
}

func hasOperator(e ast.Expr) bool {
	found := false
	ast.Inspect(e, func(n ast.Node) bool {
		switch x := n.(type) {
		case *ast.BinaryExpr:
			found = true
		case *ast.UnaryExpr:
			if x.Op == token.NOT || x.Op == token.SUB {
				found = true
			}
		}
		return !found
	})
	return found
}

func emitGuards(w *bytes.Buffer, pi *pkgInfo, repo, prefix, name string) int {
	fd := pi.decls[name]
	if fd == nil {
		fatal("%s: function %s not found", pi.path, name)
	}
	base := coqName(prefix, name)
	count := map[string]int{}
	n := 0
	var emitted []string // names of the emitted decisions, in source order (manifest)
	// force: emit even a bare atom / a constant (conditions, field writes, loop headers: WHAT is tested or
	// stored matters even when there is no operator in it)
	var emitAt func(kind string, e ast.Expr, label string, pos token.Pos, force bool)
	emit := func(kind string, e ast.Expr, label string) { emitAt(kind, e, label, e.Pos(), false) }
	emitForced := func(kind string, e ast.Expr, label string) { emitAt(kind, e, label, e.Pos(), true) }
	emitAt = func(kind string, e ast.Expr, label string, pos token.Pos, force bool) {
		ty, ok := basicOf(pi.info.TypeOf(e))
		if !ok || (!force && !hasOperator(e)) {
			return
		}
		if tv := pi.info.Types[e]; tv.Value != nil && !force {
			return // constant expression
		}
		t := &tr{pi: pi, prefix: prefix, atoms: true, atomIdx: map[string]int{}, vars: map[types.Object]string{}}
		var body string
		okk := func() (ok bool) {
			defer func() {
				if r := recover(); r != nil {
					if _, isU := r.(unsupported); isU {
						ok = false
						return
					}
					panic(r)
				}
			}()
			body = t.expr(e)
			return true
		}()
		if !okk || (!force && len(t.atomTxt) == 1 && body == "x1") {
			return
		}
		// guards are named after their own source text (not their position), so that inserting or removing
		// an unrelated guard does not rename the others, while any edit of a guard renames it
		if kind != "assign" && kind != "store" && kind != "forinit" {
			label = label + "_" + slug(t.src(e))
		}
		count[label]++
		nm := fmt.Sprintf("%s__%s", base, label)
		if count[label] > 1 {
			nm = fmt.Sprintf("%s__%s_%d", base, label, count[label])
		}
		var ps []string
		for i, aty := range t.atomTy {
			ps = append(ps, fmt.Sprintf("(x%d : %s)", i+1, coqTy(aty)))
		}
		var q []string
		for _, a := range t.atomTxt {
			q = append(q, "\""+strings.ReplaceAll(a, "\"", "'")+"\"")
		}
		note := ""
		if t.vardiv {
			note = "  [divides by a non-constant: Go panics when it is zero]"
		}
		fmt.Fprintf(w, "(* %s:%d %s  %s: %s%s *)\n", pi.relfile(pos, repo), pi.fset.Position(pos).Line, name, kind, cmt(t.src(e)), note)
		emitted = append(emitted, strings.TrimPrefix(nm, base+"__"))
		fmt.Fprintf(w, "Definition %s %s : %s :=\n  %s.\n", nm, strings.Join(ps, " "), coqTy(ty), body)
		fmt.Fprintf(w, "Definition %s_atoms : list string := [%s]%%string.\n\n", nm, strings.Join(q, "; "))
		n++
	}
	tagged := map[*ast.CaseClause]bool{}
	ast.Inspect(fd.Body, func(nd ast.Node) bool {
		if sw, ok := nd.(*ast.SwitchStmt); ok && sw.Tag != nil {
			for _, cs := range sw.Body.List {
				tagged[cs.(*ast.CaseClause)] = true
			}
		}
		return true
	})
	ast.Inspect(fd.Body, func(nd ast.Node) bool {
		switch x := nd.(type) {
		case *ast.FuncLit:
			return true
		case *ast.IfStmt:
			emitForced("if", x.Cond, "if")
		case *ast.CaseClause:
			for _, e := range x.List {
				if tagged[x] {
					break
				}
				if ty, ok := basicOf(pi.info.TypeOf(e)); ok && ty.name == "bool" {
					emitForced("case", e, "case")
				} else {
					emit("case", e, "case")
				}
			}
		case *ast.ForStmt:
			if x.Cond != nil {
				emitForced("for", x.Cond, "for")
			}
			if as, ok := x.Init.(*ast.AssignStmt); ok && len(as.Lhs) == len(as.Rhs) {
				for i, r := range as.Rhs {
					if id, ok := as.Lhs[i].(*ast.Ident); ok && !hasOperator(r) {
						emitForced("forinit", r, "forinit_"+id.Name)
					}
				}
			}
		case *ast.DeclStmt:
			// var a, b = e1, e2  /  var x T = e
			if gd, ok := x.Decl.(*ast.GenDecl); ok && gd.Tok == token.VAR {
				for _, sp := range gd.Specs {
					vs := sp.(*ast.ValueSpec)
					if len(vs.Values) == len(vs.Names) {
						for i, r := range vs.Values {
							if hasOperator(r) && pi.info.Types[r].Value == nil {
								emit("assign", r, "set_"+vs.Names[i].Name)
							} else {
								emitForced("store", r, "let_"+vs.Names[i].Name)
							}
						}
					}
				}
			}
		case *ast.SwitchStmt:
			// tagged switch over an integer / boolean: every arm is the test  tag == value
			if x.Tag != nil {
				if _, ok := basicOf(pi.info.TypeOf(x.Tag)); ok {
					for _, cs := range x.Body.List {
						for _, v := range cs.(*ast.CaseClause).List {
							be := &ast.BinaryExpr{X: x.Tag, Op: token.EQL, Y: v, OpPos: v.Pos()}
							pi.info.Types[be] = types.TypeAndValue{Type: types.Typ[types.Bool]}
							emitAt("case", be, "case", v.Pos(), true)
						}
					}
				}
			}
		case *ast.CallExpr:
			// arithmetic inside call arguments (commitKey(height-1), f(x.maxIndex+1) ...)
			if tv, ok := pi.info.Types[x.Fun]; !ok || !tv.IsType() {
				for _, a := range x.Args {
					emit("arg", a, "arg")
				}
			}
		case *ast.IncDecStmt:
			if _, ok := basicOf(pi.info.TypeOf(x.X)); ok {
				op := token.ADD
				if x.Tok == token.DEC {
					op = token.SUB
				}
				one := &ast.BasicLit{Kind: token.INT, Value: "1"}
				pi.info.Types[one] = types.TypeAndValue{Type: pi.info.TypeOf(x.X), Value: constant.MakeInt64(1)}
				be := &ast.BinaryExpr{X: x.X, Op: op, Y: one, OpPos: x.TokPos}
				pi.info.Types[be] = types.TypeAndValue{Type: pi.info.TypeOf(x.X)}
				label := "set_x_op"
				switch l := x.X.(type) {
				case *ast.Ident:
					label = "set_" + l.Name + "_op"
				case *ast.SelectorExpr:
					label = "set_" + l.Sel.Name + "_op"
				}
				emitAt("assign", be, label, x.Pos(), false)
			}
		case *ast.AssignStmt:
			if len(x.Rhs) == 1 {
				if call, ok := x.Rhs[0].(*ast.CallExpr); ok {
					if _, basic := basicOf(pi.info.TypeOf(call)); !basic || len(x.Lhs) > 1 {
						var names []string
						for _, l := range x.Lhs {
							if id, ok := l.(*ast.Ident); ok && id.Name != "_" {
								names = append(names, id.Name)
							}
						}
						if len(names) > 0 {
							label := "bind_" + strings.Join(names, "_")
							count[label]++
							nm := fmt.Sprintf("%s__%s", base, label)
							if count[label] > 1 {
								nm = fmt.Sprintf("%s__%s_%d", base, label, count[label])
							}
							fmt.Fprintf(w, "(* %s:%d %s  bind: %s *)\n", pi.relfile(x.Pos(), repo), pi.fset.Position(x.Pos()).Line, name, cmt(pi.srcOf(x)))
							fmt.Fprintf(w, "Definition %s_atoms : list string := [\"%s\"]%%string.\n\n", nm, strings.ReplaceAll(pi.srcOf(call), "\"", "'"))
							emitted = append(emitted, strings.TrimPrefix(nm, base+"__"))
							n++
						}
					}
				}
			}
			if len(x.Lhs) == len(x.Rhs) {
				for i, r := range x.Rhs {
					label := "assign"
					switch l := x.Lhs[i].(type) {
					case *ast.Ident:
						label = "set_" + l.Name
					case *ast.SelectorExpr:
						label = "set_" + l.Sel.Name
					}
					if x.Tok != token.ASSIGN && x.Tok != token.DEFINE {
						// compound assignment  l op= r  is shown as the expression  l op r
						ops := map[token.Token]token.Token{token.ADD_ASSIGN: token.ADD, token.SUB_ASSIGN: token.SUB, token.MUL_ASSIGN: token.MUL,
							token.QUO_ASSIGN: token.QUO, token.REM_ASSIGN: token.REM, token.SHL_ASSIGN: token.SHL, token.SHR_ASSIGN: token.SHR,
							token.AND_ASSIGN: token.AND, token.OR_ASSIGN: token.OR, token.XOR_ASSIGN: token.XOR}
						op, ok := ops[x.Tok]
						if !ok {
							continue
						}
						be := &ast.BinaryExpr{X: x.Lhs[i], Op: op, Y: r, OpPos: x.TokPos}
						pi.info.Types[be] = types.TypeAndValue{Type: pi.info.TypeOf(x.Lhs[i])}
						emitAt("assign", be, label+"_op", x.Pos(), false)
						continue
					}
					if sel, ok := x.Lhs[i].(*ast.SelectorExpr); ok && x.Tok == token.ASSIGN && (!hasOperator(r) || pi.info.Types[r].Value != nil) {
						// plain field write (no operator / a constant): WHAT is stored WHERE
						emitForced("store", r, "put_"+slug(pi.srcOf(sel)))
						continue
					}
					if _, isCall := r.(*ast.CallExpr); (isCall || pi.info.Types[r].Value != nil) && !hasOperator(r) {
						// a bare call or a constant: WHAT is assigned (text of the call with its arguments / the value)
						emitForced("store", r, "let_"+strings.TrimPrefix(label, "set_"))
						continue
					}
					emit("assign", r, label)
				}
			}
		case *ast.ReturnStmt:
			for _, r := range x.Results {
				emit("return", r, "ret")
			}
		}
		return true
	})
	if n == 0 {
		fmt.Fprintf(w, "(* %s %s: no guard or arithmetic expression in the translated subset *)\n\n", pi.relfile(fd.Pos(), repo), name)
	}
	// the manifest lists every decision emitted for this function, in source order: a tie that pins it states
	// "these are ALL the guards / stores of the function" (an ADDED guard then re-opens the tie too)
	var q []string
	for _, e := range emitted {
		q = append(q, "\""+e+"\"")
	}
	fmt.Fprintf(w, "Definition %s__manifest : list string := [%s]%%string.\n\n", base, strings.Join(q, "; "))
	return n
}

func main() {
	repo := flag.String("repo", "/repo", "repository root")
	specPath := flag.String("spec", "", "spec json")
	out := flag.String("out", "", "output .v file")
	flag.Parse()
	var sp spec
	b, err := os.ReadFile(*specPath)
	if err != nil {
		fatal("%v", err)
	}
	if err := json.Unmarshal(b, &sp); err != nil {
		fatal("spec: %v", err)
	}
	var w bytes.Buffer
	fmt.Fprintf(&w, "(* GENERATED by /verif/go2coq from the Go sources of the repository - do not edit.\n   Regenerated on every check from the current working tree (spec: %s). *)\n", filepath.Base(*specPath))
	fmt.Fprintf(&w, "From Coq Require Import ZArith Bool List String.\nFrom Kardia Require Import Base.GoSem.\nImport ListNotations.\nLocal Open Scope Z_scope.\n\n")
	nf, ng := 0, 0
	var all []string
	for _, e := range sp.Entries {
		all = append(all, e.Pkg)
	}
	goList(*repo, all)
	for _, e := range sp.Entries {
		pi := loadPkg(*repo, e.Pkg)
		prefix := strings.NewReplacer("/", "_", ".", "", "-", "_").Replace(strings.TrimPrefix(e.Pkg, "./"))
		fmt.Fprintf(&w, "(* ===== package %s ===== *)\n\n", pi.path)
		for _, c := range e.Consts {
			obj := pi.pkg.Scope().Lookup(c)
			cn, ok := obj.(*types.Const)
			if !ok || cn.Val().Kind() != constant.Int {
				fatal("%s: constant %s not found or not an integer", pi.path, c)
			}
			fmt.Fprintf(&w, "Definition %s__%s : Z := %s.\n\n", prefix, c, zlit(cn.Val()))
		}
		// functions: translate callees before callers
		need := map[string]bool{}
		order := []string{}
		for _, f := range e.Funcs {
			if !need[f] {
				need[f] = true
				order = append(order, f)
			}
		}
		bodies := map[string]string{}
		deps := map[string][]string{}
		for i := 0; i < len(order); i++ {
			f := order[i]
			var fb bytes.Buffer
			before := len(order)
			emitFunc(&fb, pi, *repo, prefix, f, need, &order)
			bodies[f] = fb.String()
			deps[f] = append([]string{}, order[before:]...)
			// record all callees (also already-known ones) for ordering
			for g := range need {
				if g != f && strings.Contains(bodies[f], coqName(prefix, g)+" ") {
					deps[f] = append(deps[f], g)
				}
			}
		}
		done := map[string]bool{}
		var visit func(f string, depth int)
		visit = func(f string, depth int) {
			if done[f] {
				return
			}
			if depth > len(order)+1 {
				fatal("%s: recursive functions are not supported (%s)", pi.path, f)
			}
			ds := deps[f]
			sort.Strings(ds)
			for _, g := range ds {
				visit(g, depth+1)
			}
			done[f] = true
			w.WriteString(bodies[f])
			nf++
		}
		for _, f := range order {
			visit(f, 0)
		}
		for _, g := range e.Guards {
			ng += emitGuards(&w, pi, *repo, prefix, g)
		}
	}
	fmt.Fprintf(&w, "(* %d functions, %d guard/arithmetic expressions *)\n", nf, ng)
	if *out == "" {
		os.Stdout.Write(w.Bytes())
		return
	}
	if err := os.WriteFile(*out, w.Bytes(), 0644); err != nil {
		fatal("%v", err)
	}
}
